//! C15 -- compiled automata accept exactly the language of the expression that built them.
//!
//! Every combinator program of a bounded grammar is built through the public `NFA` API and
//! compiled; language equality with the regular expression it denotes is then *decided* (for
//! all strings, not up to a length) by exploring the product of the real DFA with the
//! Brzozowski derivatives of the expression (`model::regex`) to its fixpoint over all 256
//! bytes. In every reachable product pair: accepting flag == nullable, a dead transition
//! only where the derivative's language is empty, `is_terminal` only where no byte has a
//! non-empty derivative, and (tagged choices) tags == alternatives whose own derivative is
//! nullable. The production grammars of `decoder.rs` are transcribed into the same program
//! type and go through the same decision twice: built by this harness through the public
//! API, and as the automata the decoders really use (`decoder::verif::{event,command}_dfa`).
use crate::engine::catch;
use crate::engine::report::{Ctx, Report, Samples, Tier, Violations};
use crate::engine::util::{hash64, hex, unhex};
use crate::model::regex::{byte_classes, Ast, ByteSet, Enumerator, Grammar, Re};
use rayon::prelude::*;
use serde_json::{json, Value};
use std::collections::{BTreeSet, HashMap, HashSet};
use std::sync::atomic::{AtomicU64, Ordering};
use std::sync::Mutex;
use surf_n_term::automata::{DFAState, DFA, NFA};
use surf_n_term::decoder::verif::{command_dfa, event_dfa, DfaView};

/// tags given to the alternatives of a tagged choice are `TAG_BASE + index` after `tags_map`
const TAG_BASE: usize = 100;
const PRODUCT_CAP: usize = 400_000;

// ---------------------------------------------------------------------------------------
// building real automata
// ---------------------------------------------------------------------------------------

fn build(ast: &Ast) -> NFA<u8> {
    match ast {
        Ast::Lit(bytes) => NFA::from(std::str::from_utf8(bytes).expect("ascii literal")),
        Ast::Pred(set) => {
            let set = *set;
            NFA::predicate(move |b| set.contains(b))
        }
        Ast::Empty => NFA::empty(),
        Ast::Nothing => NFA::nothing(),
        Ast::Seq(v) => NFA::sequence(v.iter().map(build)),
        Ast::Choice(v) => NFA::choice(v.iter().map(build)),
        Ast::Opt(a) => build(a).optional(),
        Ast::Some(a) => build(a).some(),
        Ast::Many(a) => build(a).many(),
    }
}

/// The same expression written with the operators: `a + b + c` for a sequence, `a | b | c` for a choice
/// (left-associated, as Rust parses them); sequences and choices of fewer than two parts have no operator form.
fn build_ops(ast: &Ast) -> NFA<u8> {
    match ast {
        Ast::Seq(v) if v.len() >= 2 => {
            let mut it = v.iter().map(build_ops);
            let first = it.next().unwrap();
            it.fold(first, |a, b| a + b)
        }
        Ast::Choice(v) if v.len() >= 2 => {
            let mut it = v.iter().map(build_ops);
            let first = it.next().unwrap();
            it.fold(first, |a, b| a | b)
        }
        Ast::Seq(v) => NFA::sequence(v.iter().map(build_ops)),
        Ast::Choice(v) => NFA::choice(v.iter().map(build_ops)),
        Ast::Opt(a) => build_ops(a).optional(),
        Ast::Some(a) => build_ops(a).some(),
        Ast::Many(a) => build_ops(a).many(),
        leaf => build(leaf),
    }
}

fn has_operator_form(ast: &Ast) -> bool {
    match ast {
        Ast::Seq(v) | Ast::Choice(v) => v.len() >= 2 || v.iter().any(has_operator_form),
        Ast::Opt(a) | Ast::Some(a) | Ast::Many(a) => has_operator_form(a),
        _ => false,
    }
}

/// `choice([alt_i.tag_stop_state(i)]).tags_map(|t| TAG_BASE + t)`
fn build_tagged(alts: &[Ast]) -> NFA<usize> {
    NFA::choice(alts.iter().enumerate().map(|(i, a)| build(a).tag_stop_state(i as u8)))
        .tags_map(|t: u8| TAG_BASE + t as usize)
}

/// Uniform view of an automaton under test.
trait Automaton {
    fn size(&self) -> usize;
    fn start(&self) -> usize;
    fn step(&self, state: usize, byte: u8) -> Option<usize>;
    /// (is_accepting, is_terminal, tags)
    fn info(&self, state: usize) -> (bool, bool, BTreeSet<usize>);
}

struct LibDfa<T>(DFA<T>);

impl<T: Clone + Ord + Into<usize>> Automaton for LibDfa<T> {
    fn size(&self) -> usize {
        self.0.size()
    }
    fn start(&self) -> usize {
        self.0.start().verif_index()
    }
    fn step(&self, state: usize, byte: u8) -> Option<usize> {
        self.0.transition(DFAState::verif_from_index(state), byte).map(|s| s.verif_index())
    }
    fn info(&self, state: usize) -> (bool, bool, BTreeSet<usize>) {
        let i = self.0.info(DFAState::verif_from_index(state));
        (i.is_accepting, i.is_terminal, i.tags.iter().map(|t| t.clone().into()).collect())
    }
}

/// Production automata: tag labels are `Matcher(k)` (k-th matcher) or `Item(event)` (events of
/// the basic-events matcher, which is matcher 0 of the event automata).
struct ProdDfa(DfaView);

impl Automaton for ProdDfa {
    fn size(&self) -> usize {
        self.0.size()
    }
    fn start(&self) -> usize {
        self.0.start()
    }
    fn step(&self, state: usize, byte: u8) -> Option<usize> {
        self.0.transition(state, byte)
    }
    fn info(&self, state: usize) -> (bool, bool, BTreeSet<usize>) {
        let (a, t, labels) = self.0.info(state);
        let tags = labels
            .iter()
            .map(|l| {
                l.strip_prefix("Matcher(")
                    .and_then(|r| r.strip_suffix(')'))
                    .and_then(|n| n.parse::<usize>().ok())
                    .unwrap_or(0)
            })
            .collect();
        (a, t, tags)
    }
}

// ---------------------------------------------------------------------------------------
// the decision procedure
// ---------------------------------------------------------------------------------------

#[derive(Debug, Clone)]
struct Mismatch {
    kind: &'static str,
    input: Vec<u8>,
    detail: String,
}

#[derive(Debug, Default, Clone)]
struct ProductStats {
    pairs: u64,
    transitions: u64,
    dead_transitions: u64,
    dfa_states_seen: u64,
    classes: u64,
    crosschecked_derivs: u64,
}

/// Shortest word of a non-empty language (bytes tried in class-representative order).
fn shortest_word(r: &Re, reps: &[u8]) -> Option<Vec<u8>> {
    let mut seen: HashSet<Re> = HashSet::new();
    let mut queue: std::collections::VecDeque<(Re, Vec<u8>)> = Default::default();
    seen.insert(r.clone());
    queue.push_back((r.clone(), vec![]));
    while let Some((cur, w)) = queue.pop_front() {
        if cur.nullable() {
            return Some(w);
        }
        for b in reps {
            let d = cur.deriv(*b);
            if !d.is_null() && seen.insert(d.clone()) {
                let mut nw = w.clone();
                nw.push(*b);
                queue.push_back((d, nw));
            }
        }
    }
    None
}

/// Explore the product (automaton state x derivative vector) to its fixpoint.
///
/// `comps` are the expressions of the alternatives (one element for an untagged program);
/// `tags[i]` is the tag expected for component i when `tagged`. `all_bytes_model` makes the
/// model side compute a derivative for each of the 256 bytes instead of one per byte class
/// and compares the two (cross-check of the class argument).
fn product(
    dfa: &dyn Automaton,
    comps: &[Re],
    tags: Option<&[usize]>,
    all_bytes_model: bool,
) -> Result<(ProductStats, Option<Mismatch>), String> {
    let mut sets: Vec<ByteSet> = vec![];
    comps.iter().for_each(|c| c.collect_sets(&mut sets));
    sets.sort();
    sets.dedup();
    let (class_of, reps) = byte_classes(&sets);
    let mut stats = ProductStats { classes: reps.len() as u64, ..Default::default() };

    let size = dfa.size();
    let mut index: HashMap<(usize, Vec<Re>), usize> = HashMap::new();
    // (state, derivatives, parent, byte)
    let mut nodes: Vec<(usize, Vec<Re>, usize, u8)> = vec![];
    let mut dfa_seen: HashSet<usize> = HashSet::new();
    let start = dfa.start();
    if start >= size {
        return Ok((stats, Some(Mismatch { kind: "bad-state", input: vec![], detail: format!("start state {start} >= size {size}") })));
    }
    index.insert((start, comps.to_vec()), 0);
    nodes.push((start, comps.to_vec(), usize::MAX, 0));
    let path = |nodes: &Vec<(usize, Vec<Re>, usize, u8)>, mut i: usize| -> Vec<u8> {
        let mut out = vec![];
        while nodes[i].2 != usize::MAX {
            out.push(nodes[i].3);
            i = nodes[i].2;
        }
        out.reverse();
        out
    };
    let mut cur = 0;
    while cur < nodes.len() {
        let (state, ders) = (nodes[cur].0, nodes[cur].1.clone());
        dfa_seen.insert(state);
        let (accepting, terminal, got_tags) = dfa.info(state);
        let nullable: Vec<bool> = ders.iter().map(|d| d.nullable()).collect();
        let expect_accept = nullable.iter().any(|n| *n);
        if accepting != expect_accept {
            let kind = if accepting { "accepts-extra" } else { "rejects-valid" };
            let detail = format!(
                "automaton is_accepting={accepting}, expression {} the string (residual {})",
                if expect_accept { "matches" } else { "does not match" },
                show_ders(&ders)
            );
            return Ok((stats, Some(Mismatch { kind, input: path(&nodes, cur), detail })));
        }
        if let Some(tags) = tags {
            let expect: BTreeSet<usize> = (0..ders.len()).filter(|i| nullable[*i]).map(|i| tags[i]).collect();
            if expect != got_tags {
                let detail = format!("tags reported {:?}, alternatives matching the string have tags {:?}", got_tags, expect);
                return Ok((stats, Some(Mismatch { kind: "tags-mismatch", input: path(&nodes, cur), detail })));
            }
        }
        // model successors per class
        let class_ders: Vec<Vec<Re>> = reps.iter().map(|b| ders.iter().map(|d| d.deriv(*b)).collect()).collect();
        if terminal {
            if let Some(ci) = class_ders.iter().position(|v| v.iter().any(|d| !d.is_null())) {
                let detail = format!(
                    "state reported terminal but byte 0x{:02x} extends the match (residual {})",
                    reps[ci],
                    show_ders(&class_ders[ci])
                );
                return Ok((stats, Some(Mismatch { kind: "terminal-but-extendable", input: path(&nodes, cur), detail })));
            }
        }
        for byte in 0..=255u8 {
            let succ = &class_ders[class_of[byte as usize] as usize];
            if all_bytes_model {
                let direct: Vec<Re> = ders.iter().map(|d| d.deriv(byte)).collect();
                stats.crosschecked_derivs += 1;
                if &direct != succ {
                    return Err(format!("byte-class argument broken: byte {byte:#x} derivative differs from its class representative"));
                }
            }
            stats.transitions += 1;
            match dfa.step(state, byte) {
                None => {
                    stats.dead_transitions += 1;
                    if let Some(d) = succ.iter().find(|d| !d.is_null()) {
                        let mut input = path(&nodes, cur);
                        input.push(byte);
                        let tail = shortest_word(d, &reps).ok_or("non-null derivative without a word")?;
                        let detail = format!(
                            "transition on 0x{byte:02x} is dead after {:?} but the expression still matches (residual {}); completed to a matching string",
                            crate::engine::util::esc(&input[..input.len() - 1]),
                            d
                        );
                        input.extend(tail);
                        return Ok((stats, Some(Mismatch { kind: "dead-but-matchable", input, detail })));
                    }
                }
                Some(next) => {
                    if next >= size {
                        let mut input = path(&nodes, cur);
                        input.push(byte);
                        return Ok((stats, Some(Mismatch { kind: "bad-state", input, detail: format!("transition returned state {next} >= size {size}") })));
                    }
                    let key = (next, succ.clone());
                    if !index.contains_key(&key) {
                        if nodes.len() >= PRODUCT_CAP {
                            return Err(format!("product larger than {PRODUCT_CAP} pairs"));
                        }
                        index.insert(key, nodes.len());
                        nodes.push((next, succ.clone(), cur, byte));
                    }
                }
            }
        }
        cur += 1;
    }
    stats.pairs = nodes.len() as u64;
    stats.dfa_states_seen = dfa_seen.len() as u64;
    Ok((stats, None))
}

fn clip(s: &str) -> String {
    if s.chars().count() > 300 {
        format!("{}...", s.chars().take(300).collect::<String>())
    } else {
        s.to_string()
    }
}

fn show_ders(d: &[Re]) -> String {
    if d.len() == 1 {
        d[0].to_string()
    } else {
        format!("[{}]", d.iter().map(|r| r.to_string()).collect::<Vec<_>>().join(", "))
    }
}

// ---------------------------------------------------------------------------------------
// programs
// ---------------------------------------------------------------------------------------

#[derive(Clone, Debug)]
enum Program {
    /// whole program, untagged
    Plain(Ast),
    /// whole program, untagged, built with the `+` and `|` operators
    PlainOps(Ast),
    /// tagged choice of the alternatives
    Tagged(Vec<Ast>),
    /// automata used by the production decoders
    Production(&'static str),
}

impl Program {
    fn json(&self) -> Value {
        match self {
            Program::Plain(a) => json!({"ast": a.to_json(), "show": a.to_string()}),
            Program::PlainOps(a) => json!({"ast": a.to_json(), "operators": true, "show": format!("{} (built with + and |)", a)}),
            Program::Tagged(v) => {
                let a = Ast::Choice(v.clone());
                json!({"ast": a.to_json(), "tagged": true, "show": format!("tagged {}", a)})
            }
            Program::Production(n) => json!({"production": n}),
        }
    }
    fn from_json(v: &Value) -> Result<Program, String> {
        if let Some(n) = v.get("production").and_then(|x| x.as_str()) {
            return match n {
                "event" => Ok(Program::Production("event")),
                "command" => Ok(Program::Production("command")),
                _ => Err("unknown production automata".into()),
            };
        }
        let ast = Ast::from_json(v.get("ast").ok_or("witness without ast")?)?;
        if v.get("tagged").and_then(|x| x.as_bool()).unwrap_or(false) {
            match ast {
                Ast::Choice(alts) => Ok(Program::Tagged(alts)),
                _ => Err("tagged program must be a choice".into()),
            }
        } else if v.get("operators").and_then(|x| x.as_bool()).unwrap_or(false) {
            Ok(Program::PlainOps(ast))
        } else {
            Ok(Program::Plain(ast))
        }
    }
    fn show(&self) -> String {
        match self {
            Program::Plain(a) => a.to_string(),
            Program::PlainOps(a) => format!("{} (built with + and |)", a),
            Program::Tagged(v) => format!("tagged {}", Ast::Choice(v.clone())),
            Program::Production(n) => format!("production {n} automata"),
        }
    }
    fn profile(&self) -> String {
        match self {
            Program::Plain(a) | Program::PlainOps(a) => a.op_profile(),
            Program::Tagged(v) => Ast::Choice(v.clone()).op_profile(),
            Program::Production(n) => format!("production-{n}"),
        }
    }
    /// component programs and expected tags
    fn components(&self) -> (Vec<Ast>, Option<Vec<usize>>) {
        match self {
            Program::Plain(a) | Program::PlainOps(a) => (vec![a.clone()], None),
            Program::Tagged(v) => (v.clone(), Some((0..v.len()).map(|i| TAG_BASE + i).collect())),
            Program::Production(n) => {
                let v = if *n == "event" { event_grammars() } else { command_grammars() };
                let tags = (0..v.len()).collect();
                (v.into_iter().map(|(_, a)| a).collect(), Some(tags))
            }
        }
    }
    fn with_automaton<R>(&self, f: impl FnOnce(&dyn Automaton) -> R) -> R {
        match self {
            Program::Plain(a) => f(&LibDfa(build(a).compile())),
            Program::PlainOps(a) => f(&LibDfa(build_ops(a).compile())),
            Program::Tagged(v) => f(&LibDfa(build_tagged(v).compile())),
            Program::Production(n) => f(&ProdDfa(if *n == "event" { event_dfa() } else { command_dfa() })),
        }
    }
}

// ---------------------------------------------------------------------------------------
// production grammars, transcribed from src/decoder.rs (builder calls kept one to one,
// `a + b` is `sequence([a, b])`, `a | b` is `choice([a, b])`)
// ---------------------------------------------------------------------------------------

fn digit() -> Ast {
    Ast::pred(|b| b.is_ascii_digit())
}
fn number() -> Ast {
    digit().some()
}
fn add(a: Ast, b: Ast) -> Ast {
    Ast::seq([a, b])
}

fn basic_events() -> Ast {
    let mut lits: Vec<String> = vec!["\x1b".into(), "\x7f".into(), "\x00".into()];
    for byte in (0..=255u8).filter(|c| c.is_ascii_lowercase()) {
        lits.push(format!("\x1b{}", byte as char));
        lits.push(((byte & 0x1f) as char).to_string());
    }
    for byte in (0..=255u8).filter(|c| c.is_ascii_uppercase()) {
        lits.push(format!("\x1b{}", byte as char));
    }
    for byte in (0..=255u8).filter(|c| c.is_ascii_punctuation()) {
        lits.push(format!("\x1b{}", byte as char));
    }
    for byte in (0..=255u8).filter(|c| c.is_ascii_digit()) {
        lits.push(format!("\x1b{}", byte as char));
    }
    for code in ["1", "2", "3", "4", "5", "6", "7", "8", "11", "12", "13", "14", "15", "17", "18", "19", "20", "21", "23", "24"] {
        lits.push(format!("\x1b[{code}~"));
        for mode in 1..8 {
            lits.push(format!("\x1b[{code};{}~", mode + 1));
        }
    }
    for (code_empty, code) in [
        ("[", "A"), ("[", "B"), ("[", "C"), ("[", "D"), ("[", "F"), ("[", "H"), ("O", "P"), ("[", "P"),
        ("O", "Q"), ("[", "Q"), ("O", "R"), ("[", "R"), ("O", "S"), ("[", "S"),
    ] {
        lits.push(format!("\x1b{code_empty}{code}"));
        for mode in 1..8 {
            lits.push(format!("\x1b[1;{}{code}", mode + 1));
        }
    }
    Ast::choice(lits.iter().map(|s| Ast::lit(s)))
}

fn utf8(one: Ast) -> Ast {
    let two = Ast::pred(|b| b >> 5 == 0b110);
    let three = Ast::pred(|b| b >> 4 == 0b1110);
    let four = Ast::pred(|b| b >> 3 == 0b11110);
    let tail = Ast::pred(|b| b >> 6 == 0b10);
    Ast::choice([
        one,
        add(two, tail.clone()),
        add(add(three, tail.clone()), tail.clone()),
        add(add(add(four, tail.clone()), tail.clone()), tail),
    ])
}

fn graphic_rendition() -> Ast {
    let code = Ast::pred(|c| matches!(c, b'0'..=b'9' | b':')).many();
    Ast::seq([Ast::lit("\x1b["), add(code, Ast::lit(";").opt()).some(), Ast::lit("m")])
}

fn event_grammars() -> Vec<(&'static str, Ast)> {
    let cursor_position = Ast::seq([Ast::lit("\x1b["), number(), Ast::lit(";"), number(), Ast::lit("R")]);
    let dec_mode = Ast::seq([Ast::lit("\x1b[?"), number(), Ast::lit(";"), number(), Ast::lit("$y")]);
    let device_attrs = Ast::seq([Ast::lit("\x1b[?"), add(number(), Ast::lit(";").opt()).some(), Ast::lit("c")]);
    let alnum = || Ast::pred(|b| b.is_ascii_alphanumeric());
    let kv = Ast::seq([alnum().some(), Ast::lit("="), alnum().some()]);
    let kitty_image = Ast::seq([
        Ast::lit("\x1b_G"),
        kv.clone(),
        Ast::seq([Ast::lit(","), kv]).many(),
        Ast::lit(";"),
        Ast::pred(|b| b != 0x1b).many(),
        Ast::lit("\x1b\\"),
    ]);
    let kitty_keyboard = Ast::seq([
        Ast::lit("\x1b["),
        Ast::choice([
            add(Ast::lit("?"), digit().some()),
            Ast::pred(|c| matches!(c, b';' | b':' | b'0'..=b'9')).many(),
        ]),
        Ast::lit("u"),
    ]);
    let mouse = Ast::seq([
        Ast::lit("\x1b[<"),
        number(),
        Ast::lit(";"),
        number(),
        Ast::lit(";"),
        number(),
        Ast::pred(|b| b == b'm' || b == b'M'),
    ]);
    let os_control = Ast::seq([
        Ast::lit("\x1b]"),
        number(),
        Ast::lit(";"),
        Ast::pred(|c| c != 0x1b && c != 0x07).some(),
        Ast::choice([Ast::lit("\x1b\\"), Ast::lit("\x07")]),
    ]);
    let report_setting = Ast::seq([
        Ast::lit("\x1bP"),
        Ast::choice([Ast::lit("0"), Ast::lit("1")]),
        Ast::lit("$r"),
        Ast::pred(|c| c != 0x1b).many(),
        Ast::lit("\x1b\\"),
    ]);
    let hex1 = Ast::pred(|b| b.is_ascii_hexdigit());
    let hex = add(hex1.clone(), hex1);
    let key_value = Ast::seq([hex.clone().some(), Ast::lit("="), hex.clone().some()]);
    let termcap = add(
        Ast::choice([
            Ast::seq([
                Ast::lit("\x1bP1+r"),
                Ast::seq([key_value.clone(), Ast::seq([Ast::lit(";"), key_value]).many()]).opt(),
            ]),
            Ast::seq([
                Ast::lit("\x1bP0+r"),
                Ast::seq([hex.clone().some(), Ast::seq([Ast::lit(";"), hex.some()]).many()]).opt(),
            ]),
        ]),
        Ast::lit("\x1b\\"),
    );
    let size = Ast::seq([Ast::lit(";"), number(), Ast::lit(";"), number(), Ast::lit("t")]);
    let term_size = Ast::seq([Ast::lit("\x1b[8"), size.clone(), Ast::lit("\x1b[4"), size]);
    let bracketed_paste = Ast::seq([Ast::lit("\x1b[200~"), Ast::pred(|b| b != 0x1b).many(), Ast::lit("\x1b[201~")]);
    vec![
        ("BasicEvents", basic_events()),
        ("CursorPosition", cursor_position),
        ("DecMode", dec_mode),
        ("DeviceAttrs", device_attrs),
        ("GraphicRendition", graphic_rendition()),
        ("KittyImage", kitty_image),
        ("KittyKeyboard", kitty_keyboard),
        ("MouseEvent", mouse),
        ("OSControl", os_control),
        ("ReportSetting", report_setting),
        ("TermCap", termcap),
        ("TermSize", term_size),
        ("UTF8Printable", utf8(Ast::pred(|b| (b' '..=b'~').contains(&b)))),
        ("BracketedPaste", bracketed_paste),
    ]
}

fn command_grammars() -> Vec<(&'static str, Ast)> {
    vec![
        ("GraphicRendition", graphic_rendition()),
        ("UTF8NotEscape", utf8(Ast::pred(|b| b >> 7 == 0 && b != 0x1b))),
    ]
}

// ---------------------------------------------------------------------------------------
// evaluation of one (program, input): shared by the explorer's witnesses and replay
// ---------------------------------------------------------------------------------------

struct Observation {
    dead_at: Option<usize>,
    accepting: bool,
    terminal: bool,
    tags: BTreeSet<usize>,
}

fn observe(p: &Program, input: &[u8]) -> Observation {
    p.with_automaton(|dfa| {
        let mut s = dfa.start();
        for (i, b) in input.iter().enumerate() {
            match dfa.step(s, *b) {
                Some(n) => s = n,
                None => return Observation { dead_at: Some(i), accepting: false, terminal: false, tags: BTreeSet::new() },
            }
        }
        let (accepting, terminal, tags) = dfa.info(s);
        Observation { dead_at: None, accepting, terminal, tags }
    })
}

/// (violates, detail) -- expected values come from the position-set matcher and, as a second
/// opinion, from derivatives.
fn judge(p: &Program, input: &[u8]) -> Result<(bool, String), String> {
    if input.len() > 127 {
        return Err("witness input longer than 127 bytes".into());
    }
    let (comps, tags) = p.components();
    let obs = catch(|| observe(p, input)).map_err(|pi| format!("PANIC {}", pi.message));
    let obs = match obs {
        Ok(o) => o,
        Err(e) => return Ok((true, format!("program {}: building/compiling/stepping panicked: {e}", p.show()))),
    };
    let naive: Vec<bool> = comps.iter().map(|c| c.matches_naive(input)).collect();
    let residual: Vec<Re> = comps
        .iter()
        .map(|c| input.iter().fold(c.to_re(), |r, b| r.deriv(*b)))
        .collect();
    let by_deriv: Vec<bool> = residual.iter().map(|r| r.nullable()).collect();
    if naive != by_deriv {
        return Err(format!("reference models disagree on {:?}: position-sets {:?}, derivatives {:?}", input, naive, by_deriv));
    }
    let expect_accept = naive.iter().any(|x| *x);
    let extend_byte = (0..=255u8).find(|b| residual.iter().any(|r| !r.deriv(*b).is_null()));
    let mut problems = vec![];
    if obs.accepting != expect_accept {
        problems.push(format!(
            "expression {} the input, automaton {}",
            if expect_accept { "MATCHES" } else { "does NOT match" },
            match obs.dead_at {
                Some(i) => format!("goes dead at byte {i}"),
                None if obs.accepting => "ACCEPTS".to_string(),
                None => "ends in a non-accepting state".to_string(),
            }
        ));
    }
    if obs.dead_at.is_none() {
        if let Some(tags) = &tags {
            let expect: BTreeSet<usize> = (0..comps.len()).filter(|i| naive[*i]).map(|i| tags[i]).collect();
            if expect != obs.tags {
                problems.push(format!("expected tags {:?} (alternatives matching the input), automaton reports {:?}", expect, obs.tags));
            }
        }
        if obs.terminal {
            if let Some(b) = extend_byte {
                problems.push(format!("state reported terminal, but byte 0x{b:02x} can extend the match"));
            }
        }
    }
    let head = format!(
        "program {} on input {:?} (hex {}): expected accept={} extendable={}; observed accept={} dead_at={:?} terminal={} tags={:?}",
        p.show(),
        crate::engine::util::esc(input),
        hex(input),
        expect_accept,
        extend_byte.is_some(),
        obs.accepting,
        obs.dead_at,
        obs.terminal,
        obs.tags
    );
    if problems.is_empty() {
        Ok((false, format!("{head}: automaton agrees with the expression")))
    } else {
        Ok((true, format!("{head}: {}", problems.join("; "))))
    }
}

// ---------------------------------------------------------------------------------------
// exploration
// ---------------------------------------------------------------------------------------

#[derive(Default)]
struct Totals {
    programs: AtomicU64,
    pairs: AtomicU64,
    transitions: AtomicU64,
    dead: AtomicU64,
    dfa_states: AtomicU64,
    crosschecked_programs: AtomicU64,
    crosschecked_derivs: AtomicU64,
    max_pairs: AtomicU64,
    nontrivial: AtomicU64,
    looped: AtomicU64,
}

struct Explorer<'a> {
    viol: &'a Violations,
    totals: Totals,
    languages: Mutex<HashSet<u64>>,
    machinery: Mutex<Option<String>>,
    picked: Mutex<Vec<(String, Value)>>,
    seed: u64,
}

impl<'a> Explorer<'a> {
    fn new(viol: &'a Violations, seed: u64) -> Self {
        Self { viol, totals: Totals::default(), languages: Mutex::new(HashSet::new()), machinery: Mutex::new(None), picked: Mutex::new(vec![]), seed }
    }

    fn check(&self, space: &str, p: &Program, index: u64, crosscheck: bool) {
        let t = &self.totals;
        t.programs.fetch_add(1, Ordering::Relaxed);
        let (comps, tags) = p.components();
        let res: Vec<Re> = comps.iter().map(|c| c.to_re()).collect();
        {
            let whole = Re::alt(res.iter().cloned());
            if !whole.is_null() && whole != Re::Eps {
                t.nontrivial.fetch_add(1, Ordering::Relaxed);
            }
            if p.profile() != "plain" {
                t.looped.fetch_add(1, Ordering::Relaxed);
            }
            if index % 8 == 0 || matches!(p, Program::Production(_)) {
                self.languages.lock().unwrap().insert(hash64(&whole));
            }
        }
        let out = catch(|| p.with_automaton(|dfa| product(dfa, &res, tags.as_deref(), crosscheck)));
        // coarse keys: kind x tagged x origin (enumerated program / transcribed grammar / production automata)
        let origin = match p {
            Program::Production(n) => format!("production-{n}"),
            _ if space.starts_with("grammar:") => "grammar".to_string(),
            _ => "program".to_string(),
        };
        let key_prefix = |kind: &str| format!("{}:{}{}", kind, if tags.is_some() { "tagged:" } else { "" }, origin);
        match out {
            Err(pi) => {
                self.viol.add(
                    key_prefix(&pi.key()),
                    format!("{}: building / compiling / stepping panicked: {} ({}:{})", p.show(), pi.message, pi.file, pi.line),
                    json!({"program": p.json(), "input": "", "space": space}),
                );
            }
            Ok(Err(e)) => {
                let mut g = self.machinery.lock().unwrap();
                if g.is_none() {
                    *g = Some(format!("{}: {e}", p.show()));
                }
            }
            Ok(Ok((st, mismatch))) => {
                t.pairs.fetch_add(st.pairs, Ordering::Relaxed);
                t.transitions.fetch_add(st.transitions, Ordering::Relaxed);
                t.dead.fetch_add(st.dead_transitions, Ordering::Relaxed);
                t.dfa_states.fetch_add(st.dfa_states_seen, Ordering::Relaxed);
                t.max_pairs.fetch_max(st.pairs, Ordering::Relaxed);
                if crosscheck {
                    t.crosschecked_programs.fetch_add(1, Ordering::Relaxed);
                    t.crosschecked_derivs.fetch_add(st.crosschecked_derivs, Ordering::Relaxed);
                }
                let pick = match space {
                    "main" => [77u64, 4_242, 100_003].contains(&index.wrapping_sub(self.seed % 50)),
                    "deep-ab" => [9_001u64, 150_001].contains(&index.wrapping_sub(self.seed % 50)),
                    "edge-arities" => index == 1_234 + self.seed % 50,
                    "grammar:TermCap" | "grammar:event-choice" | "production:event" | "production:command" => true,
                    _ => false,
                };
                if pick {
                    let tagged = matches!(p, Program::Tagged(_));
                    self.picked.lock().unwrap().push((
                        format!("{space}:{index:012}:{tagged}"),
                        json!({"space": space, "program": clip(&p.show()), "regex": clip(&show_ders(&res)), "product_pairs": st.pairs,
                           "dfa_states": st.dfa_states_seen, "byte_classes": st.classes, "transitions_executed": st.transitions}),
                    ));
                }
                if let Some(m) = mismatch {
                    self.viol.add(
                        key_prefix(m.kind),
                        format!("{} on input {:?}: {}", clip(&p.show()), crate::engine::util::esc(&m.input), clip(&m.detail)),
                        json!({"program": p.json(), "input": hex(&m.input), "kind": m.kind, "space": space}),
                    );
                }
            }
        }
    }

    /// every program of the grammar with at most `max_nodes` nodes; choice-rooted programs are
    /// additionally checked as tagged choices when `tagged`
    fn space(&self, name: &str, grammar: Grammar, max_nodes: usize, tagged: bool, cross_every: u64) -> (u64, u64) {
        let en = Enumerator::new(grammar, max_nodes.saturating_sub(1).max(1));
        // work units: (nodes, Some(shape) | None, range)
        let mut units: Vec<(usize, Option<crate::model::regex::Shape>, u64, u64, u64)> = vec![];
        let mut base = 0u64;
        for n in 1..=max_nodes {
            if n < en.by_size.len() {
                let len = en.by_size[n].len() as u64;
                let mut s = 0;
                while s < len {
                    let e = (s + 2048).min(len);
                    units.push((n, None, s, e, base + s));
                    s = e;
                }
                base += len;
            } else {
                for shape in en.shapes(n) {
                    let len = en.shape_count(&shape);
                    let mut s = 0;
                    while s < len {
                        let e = (s + 2048).min(len);
                        units.push((n, Some(shape.clone()), s, e, base + s));
                        s = e;
                    }
                    base += len;
                }
            }
        }
        let tagged_count = AtomicU64::new(0);
        units.par_iter().for_each(|(n, shape, s, e, gbase)| {
            for i in *s..*e {
                let ast = match shape {
                    None => en.by_size[*n][i as usize].clone(),
                    Some(sh) => en.build(sh, i),
                };
                let gi = gbase + (i - s);
                let cross = cross_every > 0 && gi % cross_every == 0;
                if tagged {
                    if let Ast::Choice(alts) = &ast {
                        if alts.len() >= 2 {
                            tagged_count.fetch_add(1, Ordering::Relaxed);
                            self.check(name, &Program::Tagged(alts.clone()), gi, cross);
                        }
                    }
                }
                if has_operator_form(&ast) {
                    self.check(name, &Program::PlainOps(ast.clone()), gi, false);
                }
                self.check(name, &Program::Plain(ast), gi, cross);
            }
        });
        (base, tagged_count.load(Ordering::Relaxed))
    }
}

// ---------------------------------------------------------------------------------------
// validation of the reference model
// ---------------------------------------------------------------------------------------

fn strings_upto(alphabet: &[u8], max_len: usize) -> Vec<Vec<u8>> {
    let mut out = vec![vec![]];
    let mut level = vec![vec![]];
    for _ in 0..max_len {
        let mut next = vec![];
        for w in &level {
            for b in alphabet {
                let mut n: Vec<u8> = w.clone();
                n.push(*b);
                next.push(n);
            }
        }
        out.extend(next.iter().cloned());
        level = next;
    }
    out
}

/// derivative matcher == position-set matcher == CPython `re.fullmatch` on every program with
/// up to `nodes` nodes and every string over {a,b,c} up to `len` bytes
fn validate_reference(grammar: &Grammar, nodes: usize, len: usize) -> Result<(u64, u64), String> {
    let en = Enumerator::new(grammar.clone(), nodes);
    let progs: Vec<&Ast> = en.by_size.iter().flatten().collect();
    let words = strings_upto(b"abc", len);
    let table: Vec<Vec<bool>> = progs
        .par_iter()
        .map(|p| {
            let re = p.to_re();
            words.iter().map(|w| re.matches(w)).collect()
        })
        .collect();
    let mut compared = 0u64;
    for (p, row) in progs.iter().zip(&table) {
        for (w, m) in words.iter().zip(row) {
            if p.matches_naive(w) != *m {
                return Err(format!("reference models disagree: {} on {:?}: derivatives {}, position sets {}", p, w, m, !m));
            }
            compared += 1;
        }
    }
    // CPython
    let mut script = String::from("import re,sys\nW=[");
    for w in &words {
        script.push_str(&format!("b'{}',", w.iter().map(|b| (*b as char).to_string()).collect::<String>()));
    }
    script.push_str("]\nP=[");
    for p in &progs {
        script.push_str(&format!("rb'{}',", p.to_python()));
    }
    script.push_str("]\nout=[]\nfor p in P:\n    c=re.compile(p)\n    out.append(''.join('1' if c.fullmatch(w) else '0' for w in W))\nsys.stdout.write('\\n'.join(out))\n");
    let dir = crate::engine::workers::tmp_dir();
    let path = format!("{dir}/c15_ref_{}.py", std::process::id());
    std::fs::write(&path, script).map_err(|e| e.to_string())?;
    let out = std::process::Command::new("python3").arg(&path).output();
    let _ = std::fs::remove_file(&path);
    let out = match out {
        Ok(o) => o,
        Err(_) => return Ok((compared, 0)),
    };
    if !out.status.success() {
        return Err(format!("python3 cross-check failed: {}", String::from_utf8_lossy(&out.stderr)));
    }
    let text = String::from_utf8_lossy(&out.stdout);
    let mut py = 0u64;
    let lines: Vec<&str> = text.lines().collect();
    if lines.len() != progs.len() {
        return Err(format!("python3 cross-check: {} lines for {} programs", lines.len(), progs.len()));
    }
    for ((p, row), line) in progs.iter().zip(&table).zip(lines) {
        for ((w, m), c) in words.iter().zip(row).zip(line.bytes()) {
            if (c == b'1') != *m {
                return Err(format!("reference disagrees with CPython re: {} (/{}/) on {:?}: model {}, python {}", p, p.to_python(), w, m, c == b'1'));
            }
            py += 1;
        }
    }
    Ok((compared, py))
}

fn main_grammar() -> Grammar {
    Grammar {
        atoms: vec![Ast::lit("a"), Ast::lit("b"), Ast::pred(|b| b == b'a' || b == b'b'), Ast::lit("ab"), Ast::Empty, Ast::Nothing],
        edge_arities: false,
    }
}
fn edge_grammar() -> Grammar {
    let mut atoms = main_grammar().atoms;
    atoms.push(Ast::pred(|b| b == 0x00 || b == 0xff));
    // a literal that is not ASCII: its language is the UTF-8 byte string, one transition per byte
    atoms.push(Ast::lit("\u{e9}b"));
    Grammar { atoms, edge_arities: true }
}
fn deep_grammar() -> Grammar {
    Grammar { atoms: vec![Ast::lit("a"), Ast::lit("b")], edge_arities: false }
}

pub fn run(ctx: &Ctx) -> Result<Report, String> {
    let verbose = std::env::var_os("SNT_VERBOSE").is_some();
    let only = std::env::var("SNT_C15_ONLY").ok();
    let want = |name: &str| only.as_deref().map(|o| o.split(',').any(|x| x == name)).unwrap_or(true);
    let lap = |what: &str| {
        if verbose {
            eprintln!("[c15] {:>8.2}s {what}", ctx.elapsed());
        }
    };
    let (ref_cmp, ref_py) = validate_reference(&edge_grammar(), ctx.tier.pick(3, 4), 4)?;
    lap("reference validated");

    let viol = Violations::new();
    let ex = Explorer::new(&viol, ctx.seed);

    let main_nodes = ctx.tier.pick(6, 7);
    let edge_nodes = ctx.tier.pick(4, 6);
    let deep_nodes = ctx.tier.pick(7, 9);
    // cross-check of the byte-class argument (model side on all 256 bytes): every program up to
    // a size, every 16th beyond
    let (main_count, main_tagged) = if want("main") { ex.space("main", main_grammar(), main_nodes, true, ctx.tier.pick(4, 64)) } else { (0, 0) };
    lap("main space done");
    let (edge_count, edge_tagged) = if want("edge") { ex.space("edge-arities", edge_grammar(), edge_nodes, true, 4) } else { (0, 0) };
    lap("edge space done");
    let (deep_count, deep_tagged) = if want("deep") { ex.space("deep-ab", deep_grammar(), deep_nodes, true, ctx.tier.pick(16, 256)) } else { (0, 0) };
    lap("deep space done");

    // production grammars built through the public API
    let ev = event_grammars();
    let cm = command_grammars();
    let mut prod_programs = 0u64;
    let mut list: Vec<(String, Program)> = vec![];
    for (name, ast) in ev.iter().chain(cm.iter()) {
        list.push((format!("grammar:{name}"), Program::Plain(ast.clone())));
    }
    list.push(("grammar:event-choice".into(), Program::Tagged(ev.iter().map(|(_, a)| a.clone()).collect())));
    list.push(("grammar:command-choice".into(), Program::Tagged(cm.iter().map(|(_, a)| a.clone()).collect())));
    list.push(("production:event".into(), Program::Production("event")));
    list.push(("production:command".into(), Program::Production("command")));
    if !want("production") {
        list.clear();
    }
    list.par_iter().enumerate().for_each(|(i, (name, p))| {
        ex.check(name, p, i as u64, true);
        lap(name);
    });
    prod_programs += list.len() as u64;

    if let Some(e) = ex.machinery.lock().unwrap().clone() {
        return Err(format!("machinery: {e}"));
    }

    let t = &ex.totals;
    let mut r = Report::new("model_checking");
    r.set("states", t.pairs.load(Ordering::Relaxed))
        .set("transitions", t.transitions.load(Ordering::Relaxed))
        .set("traces_validated_against_impl", t.transitions.load(Ordering::Relaxed))
        .set("programs", t.programs.load(Ordering::Relaxed))
        .set("exhaustive", true)
        .set("capped", false)
        .set("fixpoint_reached_for_every_program", true)
        .set(
            "spaces",
            json!({
                "main": {"atoms": "\"a\", \"b\", [ab], \"ab\", empty, nothing", "ops": "sequence(2-3), choice(2-3), optional, some, many",
                         "max_nodes": main_nodes, "programs": main_count, "tagged_choice_variants": main_tagged},
                "edge-arities": {"atoms": "main atoms + [\\x00\\xff] + the non-ASCII literal \"\u{e9}b\" + sequence([]) + choice([])", "ops": "main ops + sequence([x]) + choice([x])",
                         "max_nodes": edge_nodes, "programs": edge_count, "tagged_choice_variants": edge_tagged},
                "deep-ab": {"atoms": "\"a\", \"b\"", "ops": "main ops", "max_nodes": deep_nodes, "programs": deep_count, "tagged_choice_variants": deep_tagged},
                "production": {"programs": prod_programs,
                         "what": "14 event + 2 command grammars transcribed from decoder.rs, each alone, as tagged choices built through the public API, and the decoders' own automata (verif::event_dfa / command_dfa) against the same transcription"},
            }),
        )
        .set("dead_transitions_checked", t.dead.load(Ordering::Relaxed))
        .set("dfa_states_visited", t.dfa_states.load(Ordering::Relaxed))
        .set("largest_product", t.max_pairs.load(Ordering::Relaxed))
        .set("programs_with_nontrivial_language", t.nontrivial.load(Ordering::Relaxed))
        .set("programs_with_optional_or_loop", t.looped.load(Ordering::Relaxed))
        .set("distinct_canonical_languages_in_every_8th_program", ex.languages.lock().unwrap().len())
        .set("byte_class_crosscheck_programs", t.crosschecked_programs.load(Ordering::Relaxed))
        .set("byte_class_crosscheck_derivatives", t.crosschecked_derivs.load(Ordering::Relaxed))
        .set(
            "reference_validation",
            format!(
                "derivative matcher vs position-set matcher on {ref_cmp} (program,string) pairs, vs CPython re.fullmatch on {ref_py} pairs (programs <= {} nodes of the edge-arities grammar, strings over abc up to 4)",
                ctx.tier.pick(3, 4)
            ),
        )
        .set("samples", {
            let mut v = ex.picked.lock().unwrap().clone();
            v.sort_by(|a, b| a.0.cmp(&b.0));
            v.into_iter().map(|(_, j)| j).collect::<Vec<Value>>()
        })
        .set("raw_violations", viol.raw_count());
    r.assume("a combinator denotes what its doc comment says: sequence = concatenation (empty list = empty string), choice = union (empty list = nothing), optional = a?, some = a+, many = a*, predicate = one byte of the set, From<&str> = the literal");
    r.assume("the real automaton is stepped on all 256 bytes in every product pair; the model's derivative is computed once per byte class (bytes no atom of the program distinguishes) - cross-checked against per-byte derivatives on the reported subset");
    r.assume("Re::Null is the only canonical form with an empty language (smart constructors remove every empty operand)");
    r.assume("production grammars are compared with a transcription of the builder calls in src/decoder.rs; BasicEvents tags are only checked as 'some Item tag'");
    if ctx.tier == Tier::Thorough {
        r.set("tier_note", "thorough: main <= 7 nodes, edge-arities <= 6, deep-ab <= 9; quick: 6 / 4 / 7");
    }
    r.violations = viol.into_vec();
    Ok(r)
}

pub fn replay(w: &Value) -> Result<(bool, String), String> {
    let p = Program::from_json(w.get("program").ok_or("witness without program")?)?;
    let input = unhex(w.get("input").and_then(|x| x.as_str()).ok_or("witness without input")?);
    judge(&p, &input)
}
