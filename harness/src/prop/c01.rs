//! C01 -- incremental rendering always leaves the terminal showing the drawn surface.
//!
//! Explicit-state BFS over renderer histories on the real `TerminalRenderer`: a state is
//! (renderer back buffer + marks + glyph cache [hook H3], reference screen); a transition draws
//! one surface and calls `frame`, or performs clear / no-frame / re-creation / lost-frame+clear.
//! Every command the renderer passes to `Terminal::execute` is applied to the reference screen
//! (model/screen.rs). After every frame the screen must equal the screen obtained by a fresh
//! renderer painting the same surface on a blank terminal (differential oracle), and for
//! surfaces without overlap that screen must equal the direct interpretation of the surface.
use crate::engine::bfs::{bfs_with, BfsStats};
use crate::engine::catch;
use crate::engine::report::{Ctx, Report, Samples, Tier, Violations};
use crate::engine::util::hash128;
use crate::model::screen::{img_id, Content, SCell, Screen};
use serde_json::{json, Value};
use std::io::Write;
use std::sync::atomic::{AtomicU64, Ordering};
use surf_n_term::render::{CellKind, TerminalRenderer};
use surf_n_term::{
    Cell, Error, Face, FaceAttrs, Glyph, Image, Position, Size, Surface, SurfaceMut, SurfaceOwned, Terminal,
    TerminalCaps, TerminalCommand, TerminalEvent, TerminalSize, TerminalWaker, RGBA,
};

// ------------------------------------------------------------------ recording terminal

pub struct RecTerm {
    size: TerminalSize,
    pub cmds: Vec<TerminalCommand>,
    caps: TerminalCaps,
}

impl RecTerm {
    pub fn new(h: usize, w: usize) -> Self {
        Self::new_px(h, w, 2)
    }

    /// `ppc` x `ppc` pixels per cell
    pub fn new_px(h: usize, w: usize, ppc: usize) -> Self {
        RecTerm {
            size: TerminalSize {
                cells: Size::new(h, w),
                pixels: Size::new(h * ppc, w * ppc),
            },
            cmds: vec![],
            caps: TerminalCaps::default(),
        }
    }
}

impl Write for RecTerm {
    fn write(&mut self, buf: &[u8]) -> std::io::Result<usize> {
        Ok(buf.len())
    }
    fn flush(&mut self) -> std::io::Result<()> {
        Ok(())
    }
}

impl Terminal for RecTerm {
    fn execute(&mut self, cmd: TerminalCommand) -> Result<(), Error> {
        self.cmds.push(cmd);
        Ok(())
    }
    fn poll(&mut self, _t: Option<std::time::Duration>) -> Result<Option<TerminalEvent>, Error> {
        Ok(None)
    }
    fn size(&self) -> Result<TerminalSize, Error> {
        Ok(self.size)
    }
    fn position(&mut self) -> Result<Position, Error> {
        Ok(Position::origin())
    }
    fn waker(&self) -> TerminalWaker {
        TerminalWaker::new(|| Ok(()))
    }
    fn frames_pending(&self) -> usize {
        0
    }
    fn frames_drop(&mut self) {}
    fn dyn_ref(&mut self) -> &mut dyn Terminal {
        self
    }
    fn capabilities(&self) -> &TerminalCaps {
        &self.caps
    }
}

// ------------------------------------------------------------------ alphabet

pub const KIND_NAMES: [&str; 25] = [
    "blank", "a", "a/red", "blank/red", "blank/underline", "wide", "wide/red", "img1x1", "img1x2", "img1x1'", "glyph1x2", "img2x1",
    "glyph1x2/underline", "glyphB1x1", "glyph1x2/framed", "U+3000", "U+1680", "tileA", "tileB",
    "img1x1/red", "blank/reverse-red", "blank/reverse-blue", "img1x3", "blank/bold", "blank/italic-on-red",
];


pub struct Alphabet {
    cells: Vec<Cell>,
    /// pointer identity of the alphabet's images
    ptrs: Vec<(usize, usize)>,
}

fn red() -> Face {
    Face::new(None, Some(RGBA::new(255, 0, 0, 255)), FaceAttrs::EMPTY)
}

fn image(h: usize, w: usize, salt: u8) -> Image {
    let mut s = SurfaceOwned::new(Size::new(h, w));
    s.fill_with(|p, _| RGBA::new(10 + salt, (p.row * 16 + p.col) as u8, 200, 255));
    Image::from(s)
}

impl Alphabet {
    pub fn new() -> Self {
        let i1 = image(2, 2, 0);
        let i2 = image(2, 4, 1);
        let i1b = image(2, 2, 0);
        let i3 = image(4, 2, 2);
        let glyph = Glyph::new(
            surf_n_term::rasterize::Path::empty(),
            Default::default(),
            None,
            Size::new(1, 2),
            "g".to_owned(),
            None,
        );
        let under = Face::new(None, None, FaceAttrs::UNDERLINE);
        // a second glyph (other size and fallback), and the first glyph under another face: what the terminal is
        // asked to show for a glyph depends on the glyph AND the face it is drawn with
        let glyph_b = Glyph::new(
            surf_n_term::rasterize::Path::empty(),
            Default::default(),
            None,
            Size::new(1, 1),
            "h".to_owned(),
            None,
        );
        // a third glyph object equal to the first in path, size and fallback, but drawn inside a filled frame
        let glyph_framed = Glyph::new(
            surf_n_term::rasterize::Path::empty(),
            Default::default(),
            None,
            Size::new(1, 2),
            "g".to_owned(),
            Some(surf_n_term::glyph::GlyphFrame { fill_color: Some(RGBA::new(0, 255, 0, 255)), ..Default::default() }),
        );
        {
            let size = RecTerm::new(1, 3).size;
            assert_ne!(img_id(&glyph.rasterize(red(), size)), img_id(&glyph_framed.rasterize(red(), size)), "framed glyph must look different");
            assert_ne!(img_id(&glyph.rasterize(red(), size)), img_id(&glyph.rasterize(under, size)), "glyph under another face must look different");
        }
        // two tiles of one sprite sheet: same size, same backing buffer, different offset and content
        let sheet = image(2, 4, 5);
        let tile_a = sheet.crop(.., 0..2);
        let tile_b = sheet.crop(.., 2..4);
        assert_ne!(img_id(&tile_a), img_id(&tile_b));
        let ptrs = vec![
            (7, i1.data().as_ptr() as usize),
            (8, i2.data().as_ptr() as usize),
            (9, i1b.data().as_ptr() as usize),
            (11, i3.data().as_ptr() as usize),
        ];
        let cells = vec![
            Cell::default(),
            Cell::new_char(Face::default(), 'a'),
            Cell::new_char(red(), 'a'),
            Cell::new_char(red(), ' '),
            Cell::new_char(under, ' '),
            Cell::new_char(Face::default(), '\u{4e16}'),
            Cell::new_char(red(), '\u{4e16}'),
            Cell::new_image(i1.clone()),
            Cell::new_image(i2),
            Cell::new_image(i1b),
            Cell::new_glyph(red(), glyph.clone()),
            Cell::new_image(i3),
            Cell::new_glyph(under, glyph),
            Cell::new_glyph(red(), glyph_b),
            Cell::new_glyph(red(), glyph_framed),
            // white space other than U+0020: a wide one and a narrow one with a visible stroke
            Cell::new_char(Face::default(), '\u{3000}'),
            Cell::new_char(Face::default(), '\u{1680}'),
            Cell::new_image(tile_a),
            Cell::new_image(tile_b),
            // the first image again, as a cell with another face (only the face differs from kind 7)
            Cell::new_image(i1.clone()).with_face(red()),
            // blanks in reverse video: the foreground is what the cell shows
            Cell::new_char(Face::new(Some(RGBA::new(255, 0, 0, 255)), None, FaceAttrs::REVERSE), ' '),
            Cell::new_char(Face::new(Some(RGBA::new(0, 0, 255, 255)), None, FaceAttrs::REVERSE), ' '),
            // an image three cells wide (an overlap can begin strictly inside its top row)
            Cell::new_image(image(2, 6, 7)),
            // blanks whose rendition is more than a background: a run of them is not what an erase leaves behind
            Cell::new_char(Face::new(None, None, FaceAttrs::BOLD), ' '),
            Cell::new_char(Face::new(None, Some(RGBA::new(255, 0, 0, 255)), FaceAttrs::ITALIC), ' '),
        ];
        Alphabet { cells, ptrs }
    }

    fn is_wide(kind: usize) -> bool {
        kind == 5 || kind == 6 || kind == 15
    }

    /// (height, width) in cells of the area an image-like kind covers
    fn area(kind: usize) -> Option<(usize, usize)> {
        match kind {
            7 | 9 | 13 | 17 | 18 | 19 => Some((1, 1)),
            8 | 10 | 12 | 14 => Some((1, 2)),
            11 => Some((2, 1)),
            22 => Some((1, 3)),
            _ => None,
        }
    }
}

#[derive(Debug, Clone, PartialEq, Eq, Hash)]
pub struct Grid {
    pub h: usize,
    pub w: usize,
    pub kinds: Vec<usize>,
}

#[derive(Debug, Clone, PartialEq, Eq, Hash)]
pub enum Op {
    /// draw surface (index into the grid's surface list) and render a frame
    Frame(u32),
    /// draw surface, then reset it without rendering (TerminalAction::WaitNoFrame)
    NoFrame(u32),
    /// renderer.clear(term)
    Clear,
    /// renderer.clear(term); renderer = TerminalRenderer::new(term, true)   (resize path)
    Recreate,
    /// a frame is computed but its commands never reach the screen, then renderer.clear(term)
    /// (frames dropped by the terminal queue, terminal.rs frames_drop path)
    LostThenClear(u32),
}

/// all surfaces of the grid: one kind per cell, excluding wide characters in the last column
pub fn surfaces(g: &Grid) -> Vec<Vec<u8>> {
    let n = g.h * g.w;
    let k = g.kinds.len();
    let total = k.pow(n as u32);
    let mut out = Vec::with_capacity(total);
    'next: for mut i in 0..total {
        let mut s = Vec::with_capacity(n);
        for _ in 0..n {
            s.push(g.kinds[i % k] as u8);
            i /= k;
        }
        for r in 0..g.h {
            if Alphabet::is_wide(s[r * g.w + g.w - 1] as usize) {
                continue 'next;
            }
        }
        out.push(s);
    }
    out
}

fn draw(alpha: &Alphabet, g: &Grid, renderer: &mut TerminalRenderer, surf: &[u8]) {
    let mut view = renderer.surface();
    for r in 0..g.h {
        for c in 0..g.w {
            let kind = surf[r * g.w + c] as usize;
            if kind != 0 {
                view.set(Position::new(r, c), alpha.cells[kind].clone());
            }
        }
    }
}

/// state of one execution
pub struct Exec {
    pub term: RecTerm,
    pub renderer: TerminalRenderer,
    pub screen: Screen,
}

impl Exec {
    pub fn new(g: &Grid) -> Self {
        let mut term = RecTerm::new(g.h, g.w);
        let renderer = TerminalRenderer::new(&mut term, false).expect("renderer");
        Exec {
            term,
            renderer,
            screen: Screen::new(g.h, g.w),
        }
    }

    fn flush_to_screen(&mut self, apply: bool) {
        for cmd in self.term.cmds.drain(..) {
            if apply {
                self.screen.apply(&cmd);
            }
        }
    }

    pub fn apply(&mut self, alpha: &Alphabet, g: &Grid, surfs: &[Vec<u8>], op: &Op) {
        match op {
            Op::Frame(s) => {
                draw(alpha, g, &mut self.renderer, &surfs[*s as usize]);
                self.renderer.frame(&mut self.term).expect("frame");
                self.flush_to_screen(true);
            }
            Op::NoFrame(s) => {
                draw(alpha, g, &mut self.renderer, &surfs[*s as usize]);
                self.renderer.surface().clear();
            }
            Op::Clear => {
                self.renderer.clear(&mut self.term).expect("clear");
                self.flush_to_screen(true);
            }
            Op::Recreate => {
                self.renderer.clear(&mut self.term).expect("clear");
                self.flush_to_screen(true);
                self.renderer = TerminalRenderer::new(&mut self.term, true).expect("renderer");
            }
            Op::LostThenClear(s) => {
                draw(alpha, g, &mut self.renderer, &surfs[*s as usize]);
                self.renderer.frame(&mut self.term).expect("frame");
                self.flush_to_screen(false);
                self.renderer.clear(&mut self.term).expect("clear");
                self.flush_to_screen(true);
            }
        }
    }

    /// canonical key: renderer state (H3) + what the screen holds
    pub fn key(&self, alpha: &Alphabet) -> u128 {
        let (back, marks, glyphs) = self.renderer.verif_state();
        let canon_img = |img: &Image| -> (u64, usize) {
            let p = img.data().as_ptr() as usize;
            let class = alpha
                .ptrs
                .iter()
                .find(|(_, q)| *q == p)
                .map(|(k, _)| *k)
                .or_else(|| glyphs.iter().position(|(_, gi)| gi.data().as_ptr() as usize == p).map(|i| 100 + i))
                .unwrap_or(999);
            (img_id(img).hash, class)
        };
        let mut cells: Vec<(Face, u32, u64, usize)> = vec![];
        for c in back.iter() {
            match c.kind() {
                CellKind::Char(ch) => cells.push((c.face(), *ch as u32, 0, 0)),
                CellKind::Image(img) => {
                    let (h, class) = canon_img(img);
                    cells.push((c.face(), 0x11_0000, h, class));
                }
                CellKind::Glyph(_) => cells.push((c.face(), 0x11_0001, 0, 0)),
            }
        }
        hash128(&(cells, marks, glyphs.len(), &self.screen.cells, &self.screen.placements))
    }
}

/// screen obtained by a fresh renderer painting `surf` on a blank terminal
pub fn from_scratch(alpha: &Alphabet, g: &Grid, surf: &[u8]) -> Screen {
    from_scratch_px(alpha, g, surf, 2)
}

/// ... on a terminal with `ppc` x `ppc` pixels per cell
pub fn from_scratch_px(alpha: &Alphabet, g: &Grid, surf: &[u8], ppc: usize) -> Screen {
    let mut e = Exec::new(g);
    if ppc != 2 {
        e.term = RecTerm::new_px(g.h, g.w, ppc);
        e.renderer = TerminalRenderer::new(&mut e.term, false).expect("renderer");
    }
    draw(alpha, g, &mut e.renderer, surf);
    e.renderer.frame(&mut e.term).expect("frame");
    e.flush_to_screen(true);
    e.screen
}

/// direct interpretation of a surface without overlap; None if cells overlap
pub fn direct(alpha: &Alphabet, g: &Grid, surf: &[u8]) -> Option<Screen> {
    let mut s = Screen::new(g.h, g.w);
    let mut covered = vec![false; g.h * g.w];
    for r in 0..g.h {
        for c in 0..g.w {
            let kind = surf[r * g.w + c] as usize;
            if kind == 0 {
                continue;
            }
            if covered[r * g.w + c] {
                return None;
            }
            let cell = &alpha.cells[kind];
            if let Some((ah, aw)) = Alphabet::area(kind) {
                if r + ah > g.h || c + aw > g.w {
                    return None; // image does not fit: clipping is terminal specific
                }
                for rr in r..r + ah {
                    for cc in c..c + aw {
                        if covered[rr * g.w + cc] {
                            return None;
                        }
                        covered[rr * g.w + cc] = true;
                        s.cells[rr * g.w + cc] = SCell {
                            content: Content::Blank,
                            face: Face::new(None, cell.face().bg, FaceAttrs::EMPTY),
                        };
                    }
                }
                match cell.kind() {
                    CellKind::Image(img) => s.placements.push((img_id(img), Position::new(r, c))),
                    CellKind::Glyph(glyph) => {
                        // what a glyph looks like is a function of the glyph, the face and the cell size in pixels
                        let size = RecTerm::new(g.h, g.w).size;
                        s.placements.push((img_id(&glyph.rasterize(cell.face(), size)), Position::new(r, c)));
                    }
                    _ => {}
                }
            } else if let CellKind::Char(ch) = cell.kind() {
                covered[r * g.w + c] = true;
                s.cells[r * g.w + c] = SCell {
                    content: if *ch == ' ' { Content::Blank } else { Content::Char(*ch) },
                    face: cell.face(),
                };
                if Alphabet::is_wide(kind) {
                    if covered[r * g.w + c + 1] {
                        return None;
                    }
                    covered[r * g.w + c + 1] = true;
                    s.cells[r * g.w + c + 1] = SCell { content: Content::Tail, face: cell.face() };
                }
            }
        }
    }
    // a later cell may sit in an area covered earlier: detect (second pass done above by `covered`)
    s.placements.sort();
    Some(s)
}

fn cell_class(c: &SCell) -> String {
    let content = match c.content {
        Content::Blank => "blank",
        Content::Char(ch) if crate::model::screen::char_width(ch) == 2 => "wide",
        Content::Char(_) => "char",
        Content::Tail => "tail",
        Content::Poison => "poison",
    };
    let f = c.face;
    let mut face = String::new();
    if f.bg.is_some() {
        face.push_str("+bg");
    }
    if !f.attrs.is_empty() {
        face.push_str("+attr");
    }
    if face.is_empty() {
        face.push_str("+default");
    }
    format!("{content}{face}")
}

/// first difference as (class, detail)
fn diff_class(expected: &Screen, actual: &Screen) -> Option<(String, String)> {
    if expected.placements != actual.placements {
        let kind = if actual.placements.len() > expected.placements.len() {
            "stale-image"
        } else if actual.placements.len() < expected.placements.len() {
            "missing-image"
        } else {
            "wrong-image"
        };
        return Some((
            format!("placements:{kind}"),
            format!("expected placements {:?}, screen has {:?}", expected.placements, actual.placements),
        ));
    }
    let a = expected.visible();
    let b = actual.visible();
    for (i, (x, y)) in a.iter().zip(b.iter()).enumerate() {
        if x != y || y.content == Content::Poison {
            return Some((
                format!("cell:expected-{}:shows-{}", cell_class(x), cell_class(y)),
                format!(
                    "cell ({},{}) should show {:?} but shows {:?}",
                    i / expected.width,
                    i % expected.width,
                    x,
                    y
                ),
            ));
        }
    }
    None
}

fn op_name(op: &Op) -> &'static str {
    match op {
        Op::Frame(_) => "F",
        Op::NoFrame(_) => "N",
        Op::Clear => "C",
        Op::Recreate => "R",
        Op::LostThenClear(_) => "L",
    }
}

fn surf_json(g: &Grid, s: &[u8]) -> Value {
    let rows: Vec<Vec<&str>> = (0..g.h)
        .map(|r| (0..g.w).map(|c| KIND_NAMES[s[r * g.w + c] as usize]).collect())
        .collect();
    json!(rows)
}

fn history_json(g: &Grid, surfs: &[Vec<u8>], hist: &[Op]) -> Value {
    let ops: Vec<Value> = hist
        .iter()
        .map(|op| match op {
            Op::Frame(s) => json!({"op": "Frame", "surface": surf_json(g, &surfs[*s as usize])}),
            Op::NoFrame(s) => json!({"op": "NoFrame", "surface": surf_json(g, &surfs[*s as usize])}),
            Op::Clear => json!({"op": "Clear"}),
            Op::Recreate => json!({"op": "Recreate"}),
            Op::LostThenClear(s) => json!({"op": "LostThenClear", "surface": surf_json(g, &surfs[*s as usize])}),
        })
        .collect();
    json!({"grid": [g.h, g.w], "history": ops})
}

/// Check the last operation of a history; returns violation (key-suffix, what) if any, and the
/// state key when the state may be expanded.
fn step(alpha: &Alphabet, g: &Grid, surfs: &[Vec<u8>], hist: &[Op], with_images: bool) -> (Option<u128>, Vec<(String, String)>) {
    let mut e = Exec::new(g);
    let mut problems = vec![];
    for (i, op) in hist.iter().enumerate() {
        e.apply(alpha, g, surfs, op);
        if i + 1 < hist.len() {
            e.screen.problems.clear();
        }
    }
    let shape: String = hist.iter().map(op_name).collect::<Vec<_>>().join("");
    let _ = with_images;
    if !e.screen.problems.is_empty() {
        let p = e.screen.problems[0].clone();
        problems.push((format!("{shape}:command:{}", crate::prop::decoder_common::squash(&p)), p));
    }
    if let Some(Op::Frame(s)) = hist.last() {
        let surf = &surfs[*s as usize];
        let scratch = from_scratch(alpha, g, surf);
        if let Some((class, detail)) = diff_class(&scratch, &e.screen) {
            problems.push((
                format!("{shape}:differs-from-repaint:{class}"),
                format!("after history {shape} the screen differs from a from-scratch repaint of the last surface: {detail}"),
            ));
        }
        if hist.len() == 1 {
            // absolute oracle on the from-scratch path
            if let Some(d) = direct(alpha, g, surf) {
                let sc = scratch.clone();
                if let Some((class, detail)) = diff_class(&d, &sc) {
                    problems.push((
                        format!("F:repaint-differs-from-surface:{class}"),
                        format!("a from-scratch repaint does not show the surface: {detail}"),
                    ));
                }
            }
        }
    }
    if problems.is_empty() {
        (Some(e.key(alpha)), problems)
    } else {
        (None, problems)
    }
}

pub struct GridResult {
    pub grid: Grid,
    pub surfaces: usize,
    pub stats: BfsStats,
}

fn explore_grid(ctx: &Ctx, alpha: &Alphabet, g: &Grid, depth: usize, lost: bool, viol: &Violations, samples: &Samples, frames: &AtomicU64) -> GridResult {
    let surfs = surfaces(g);
    let ns = surfs.len();
    // op table: Frame(all) ++ NoFrame(subset) ++ Clear ++ Recreate ++ Lost(subset)
    let subset: Vec<u32> = (0..ns as u32)
        .filter(|i| {
            let s = &surfs[*i as usize];
            let non_default = s.iter().filter(|k| **k != 0).count();
            non_default == 1 || non_default == s.len()
        })
        .take(64)
        .collect();
    let mut ops: Vec<Op> = (0..ns as u32).map(Op::Frame).collect();
    ops.extend(subset.iter().map(|s| Op::NoFrame(*s)));
    ops.push(Op::Clear);
    ops.push(Op::Recreate);
    if lost {
        ops.extend(subset.iter().map(|s| Op::LostThenClear(*s)));
    }
    let with_images = g.kinds.iter().any(|k| *k >= 7);
    let stats = bfs_with(
        ctx,
        depth,
        |_h| (0..ops.len()).collect(),
        |h: &[usize]| {
            let hist: Vec<Op> = h.iter().map(|i| ops[*i].clone()).collect();
            frames.fetch_add(hist.len() as u64 + 1, Ordering::Relaxed);
            let res = catch(|| step(alpha, g, &surfs, &hist, with_images));
            match res {
                Ok((key, problems)) => {
                    for (k, what) in problems {
                        let lost = hist.iter().any(|op| matches!(op, Op::LostThenClear(_)));
                        let key = if lost && k.ends_with("placements:stale-image") {
                            // one root cause whatever the grid and the rest of the history
                            "lost-frame:stale-image".to_string()
                        } else {
                            format!("{}x{}:{}", g.h.min(2), if g.w >= 5 { "wide" } else { "narrow" }, k)
                        };
                        viol.add(
                            key,
                            what,
                            history_json(g, &surfs, &hist),
                        );
                    }
                    if let Some(k) = key {
                        if hist.len() == 2 && h[0] % 97 == 5 && h[1] % 89 == 7 {
                            samples.force(history_json(g, &surfs, &hist));
                        }
                        samples.offer(k as u64, || history_json(g, &surfs, &hist));
                    }
                    key
                }
                Err(p) => {
                    viol.add(
                        format!("renderer:{}", p.key()),
                        format!("renderer panicked: {} ({}:{})", p.message, p.file, p.line),
                        history_json(g, &surfs, &hist),
                    );
                    None
                }
            }
        },
    );
    GridResult { grid: g.clone(), surfaces: ns, stats }
}

pub fn grids(tier: Tier) -> Vec<(Grid, usize, bool)> {
    let all: Vec<usize> = (0..11).collect();
    let seven: Vec<usize> = vec![0, 1, 3, 4, 6, 7, 8];
    let nine: Vec<usize> = vec![0, 1, 2, 3, 4, 5, 6, 7, 8];
    let long: Vec<usize> = vec![0, 3, 4, 6];
    let g = |h, w, kinds: &Vec<usize>| Grid { h, w, kinds: kinds.clone() };
    match tier {
        Tier::Quick => vec![
            (g(1, 1, &all), 6, true),
            (g(1, 2, &all), 6, true),
            (g(1, 3, &all), 6, false),
            (g(1, 4, &seven), 6, false),
            (g(2, 2, &vec![0, 1, 3, 6, 7, 8, 11]), 6, false),
            (g(1, 6, &long), 6, false),
            // runs of blanks with an attribute (long enough for the run-length erase)
            (g(1, 6, &vec![0, 20, 23, 24]), 6, false),
            (g(1, 3, &vec![0, 1, 7, 10, 12, 13, 14]), 6, true),
            (g(1, 3, &vec![0, 1, 2, 5, 15, 16]), 6, false),
            (g(1, 3, &vec![0, 1, 7, 17, 18, 19]), 6, true),
            (g(1, 3, &vec![0, 1, 3, 20, 21]), 6, false),
            // more rows than columns
            (g(3, 1, &vec![0, 1, 3, 7, 11, 17]), 6, false),
            (g(3, 2, &vec![0, 1, 11]), 6, false),
        ],
        Tier::Thorough => vec![
            (g(1, 1, &all), 8, true),
            (g(1, 2, &all), 8, true),
            (g(1, 3, &all), 8, true),
            (g(1, 4, &nine), 8, true),
            (g(2, 2, &vec![0, 1, 2, 3, 4, 5, 6, 7, 8, 11]), 8, true),
            (g(2, 3, &vec![0, 1, 6, 8, 11]), 8, false),
            (g(1, 6, &long), 8, true),
            (g(1, 7, &long), 8, false),
            (g(1, 6, &vec![0, 3, 20, 23, 24]), 8, false),
            (g(1, 7, &vec![0, 20, 23, 24]), 8, false),
            (g(1, 4, &vec![0, 1, 7, 10, 12, 13, 14]), 8, true),
            (g(2, 2, &vec![0, 1, 10, 12, 13, 14]), 8, false),
            (g(1, 4, &vec![0, 1, 2, 5, 15, 16]), 8, true),
            (g(2, 2, &vec![0, 1, 5, 15, 16]), 8, false),
            (g(1, 4, &vec![0, 1, 7, 17, 18, 19]), 8, true),
            (g(1, 4, &vec![0, 1, 3, 4, 20, 21]), 8, true),
            (g(2, 2, &vec![0, 1, 7, 19, 20, 21]), 8, false),
            (g(4, 1, &vec![0, 1, 3, 7, 11, 17]), 8, true),
            (g(3, 2, &vec![0, 1, 7, 11]), 8, false),
            (g(4, 2, &vec![0, 7, 11]), 8, false),
        ],
    }
}

// ------------------------------------------------------------------ overlapping images

/// Every surface of a 2x4 grid over {blank, an image two cells high, an image three cells wide}, painted from
/// scratch: a cell shows one thing, so no two image placements on the screen may cover a common cell (an item that
/// needs a cell another item already covers is not shown).
fn overlap_sweep(alpha: &Alphabet, viol: &Violations) -> u64 {
    use rayon::prelude::*;
    let g = Grid { h: 2, w: 4, kinds: vec![0, 11, 22] };
    let surfs = surfaces(&g);
    surfs.par_iter().for_each(|surf| {
        let res = catch(|| from_scratch(alpha, &g, surf));
        let w = || json!({"kind": "overlap", "grid": [g.h, g.w], "surface": surf_json(&g, surf)});
        match res {
            Err(p) => viol.add(format!("overlap:{}", p.key()), format!("frame panicked: {} ({}:{})", p.message, p.file, p.line), w()),
            Ok(screen) => {
                let rects: Vec<(usize, usize, usize, usize)> = screen
                    .placements
                    .iter()
                    .map(|(id, pos)| (pos.row, pos.row + id.height.div_ceil(2), pos.col, pos.col + id.width.div_ceil(2)))
                    .collect();
                for i in 0..rects.len() {
                    for j in 0..i {
                        let (a, b) = (rects[i], rects[j]);
                        if a.0 < b.1 && b.0 < a.1 && a.2 < b.3 && b.2 < a.3 {
                            viol.add(
                                "overlap:two-images-on-one-cell",
                                format!("painted from scratch, the screen holds two image placements that cover a common cell: rows {}..{} cols {}..{} and rows {}..{} cols {}..{}", a.0, a.1, a.2, a.3, b.0, b.1, b.2, b.3),
                                w(),
                            );
                            return;
                        }
                    }
                }
            }
        }
    });
    surfs.len() as u64
}

// ------------------------------------------------------------------ the library's own render loop

/// what the scripted terminal hands to the loop's next poll
#[derive(Debug, Clone, Copy, PartialEq, Eq, Hash)]
pub enum LoopEvent {
    Timeout,
    Wake,
    /// window-size change (to the same size: the loop re-creates its renderer all the same)
    Resize,
    /// no event, but more than 32 frames are pending in the output queue (the loop drops them and clears)
    Behind,
    /// window-size change that keeps the grid and doubles the pixel size (a font / zoom change): the footprint of
    /// every image in cells changes
    Zoom,
}

#[derive(Debug, Clone, Copy, PartialEq, Eq, Hash)]
pub enum LoopAction {
    Wait,
    WaitNoFrame,
    Sleep0,
}

const LOOP_EVENTS: [LoopEvent; 4] = [LoopEvent::Timeout, LoopEvent::Wake, LoopEvent::Resize, LoopEvent::Behind];
const LOOP_EVENTS_ZOOM: [LoopEvent; 5] = [LoopEvent::Timeout, LoopEvent::Wake, LoopEvent::Resize, LoopEvent::Behind, LoopEvent::Zoom];
const LOOP_ACTIONS: [LoopAction; 3] = [LoopAction::Wait, LoopAction::WaitNoFrame, LoopAction::Sleep0];

/// One handler call of a program run through `Terminal::run_render`: the surface drawn, the action returned, and the
/// event that wakes the loop up afterwards (ignored for the last call, which returns Quit).
#[derive(Debug, Clone, Copy, PartialEq, Eq, Hash)]
pub struct LoopStep {
    pub surf: u32,
    pub action: LoopAction,
    pub then: LoopEvent,
}

/// terminal for `run_render`: executes every command on the reference screen at once, polls from a script
struct LoopTerm {
    size: TerminalSize,
    caps: TerminalCaps,
    screen: Screen,
    script: std::collections::VecDeque<LoopEvent>,
    pending: usize,
    polls: usize,
}

impl Write for LoopTerm {
    fn write(&mut self, buf: &[u8]) -> std::io::Result<usize> {
        Ok(buf.len())
    }
    fn flush(&mut self) -> std::io::Result<()> {
        Ok(())
    }
}

impl Terminal for LoopTerm {
    fn execute(&mut self, cmd: TerminalCommand) -> Result<(), Error> {
        if !matches!(cmd, TerminalCommand::DecModeSet { .. }) {
            self.screen.apply(&cmd);
        }
        Ok(())
    }
    fn poll(&mut self, _t: Option<std::time::Duration>) -> Result<Option<TerminalEvent>, Error> {
        self.polls += 1;
        self.pending = 0;
        Ok(match self.script.pop_front() {
            None | Some(LoopEvent::Timeout) => None,
            Some(LoopEvent::Wake) => Some(TerminalEvent::Wake),
            Some(LoopEvent::Resize) => Some(TerminalEvent::Resize(self.size)),
            Some(LoopEvent::Behind) => {
                self.pending = 40;
                None
            }
            Some(LoopEvent::Zoom) => {
                self.size.pixels = Size::new(self.size.pixels.height * 2, self.size.pixels.width * 2);
                Some(TerminalEvent::Resize(self.size))
            }
        })
    }
    fn size(&self) -> Result<TerminalSize, Error> {
        Ok(self.size)
    }
    fn position(&mut self) -> Result<Position, Error> {
        Ok(Position::origin())
    }
    fn waker(&self) -> TerminalWaker {
        TerminalWaker::new(|| Ok(()))
    }
    fn frames_pending(&self) -> usize {
        self.pending
    }
    fn frames_drop(&mut self) {
        self.pending = 0;
    }
    fn dyn_ref(&mut self) -> &mut dyn Terminal {
        self
    }
    fn capabilities(&self) -> &TerminalCaps {
        &self.caps
    }
}

/// Run `prog` through the library's `run_render` (the last step returns Quit). At every handler call after a step
/// that rendered, and at the end, the screen must equal a from-scratch repaint of the surface that step drew; a step
/// that returned WaitNoFrame must leave nothing of what it drew in later frames (the loop resets the surface).
fn loop_program(alpha: &Alphabet, g: &Grid, surfs: &[Vec<u8>], prog: &[LoopStep]) -> Vec<(String, String)> {
    let base = RecTerm::new(g.h, g.w);
    let mut term = LoopTerm { size: base.size, caps: TerminalCaps::default(), screen: Screen::new(g.h, g.w), script: Default::default(), pending: 0, polls: 0 };
    term.script.push_back(LoopEvent::Timeout);
    for st in &prog[..prog.len() - 1] {
        term.script.push_back(st.then);
    }
    let mut problems: Vec<(String, String)> = vec![];
    let mut call = 0usize;
    // surface that the screen must show right now (set by the last step that rendered), if known
    let mut shown: Option<u32> = None;
    let shape = |upto: usize| -> String {
        prog[..upto]
            .iter()
            .map(|s| format!("{}{}", match s.action { LoopAction::Wait => "W", LoopAction::WaitNoFrame => "N", LoopAction::Sleep0 => "S" }, match s.then { LoopEvent::Timeout => "t", LoopEvent::Wake => "w", LoopEvent::Resize => "r", LoopEvent::Behind => "b", LoopEvent::Zoom => "z" }))
            .collect::<Vec<_>>()
            .join("")
    };
    let mut judge = |screen: &mut Screen, shown: Option<u32>, upto: usize, problems: &mut Vec<(String, String)>| {
        // pixels per cell after the zoom events delivered so far
        let zooms = prog[..upto.min(prog.len()).saturating_sub(1)].iter().filter(|s| s.then == LoopEvent::Zoom).count();
        let ppc = 2usize << zooms;
        if let Some(p) = screen.problems.first().cloned() {
            problems.push((format!("loop:{}:command:{}", shape(upto), crate::prop::decoder_common::squash(&p)), p));
            screen.problems.clear();
        }
        if let Some(s) = shown {
            let scratch = from_scratch_px(alpha, g, &surfs[s as usize], ppc);
            if let Some((class, detail)) = diff_class(&scratch, screen) {
                problems.push((
                    format!("loop:{}:differs-from-repaint:{class}", shape(upto)),
                    format!("run_render, after handler calls {} (W = Wait, N = WaitNoFrame, S = Sleep(0); then t = timeout, w = wake, r = resize, b = more than 32 frames pending, z = resize that doubles the pixel size): the screen differs from a from-scratch repaint of the last rendered surface: {detail}", shape(upto)),
                ));
            }
        }
    };
    let res = term.run_render(|t: &mut LoopTerm, _event, mut view| -> Result<surf_n_term::TerminalAction<()>, Error> {
        let st = prog[call];
        // a resize or a frames-drop clears: what the screen shows until the next rendered frame is not demanded
        if call > 0 && matches!(prog[call - 1].then, LoopEvent::Resize | LoopEvent::Behind | LoopEvent::Zoom) {
            shown = None;
        }
        if problems.is_empty() {
            judge(&mut t.screen, shown, call, &mut problems);
        }
        t.screen.problems.clear();
        let surf = &surfs[st.surf as usize];
        for r in 0..g.h {
            for c in 0..g.w {
                let kind = surf[r * g.w + c] as usize;
                if kind != 0 {
                    view.set(Position::new(r, c), alpha.cells[kind].clone());
                }
            }
        }
        call += 1;
        if call == prog.len() {
            shown = Some(st.surf);
            return Ok(surf_n_term::TerminalAction::Quit(()));
        }
        Ok(match st.action {
            LoopAction::Wait => {
                shown = Some(st.surf);
                surf_n_term::TerminalAction::Wait
            }
            LoopAction::Sleep0 => {
                shown = Some(st.surf);
                surf_n_term::TerminalAction::Sleep(std::time::Duration::from_millis(0))
            }
            LoopAction::WaitNoFrame => surf_n_term::TerminalAction::WaitNoFrame,
        })
    });
    if let Err(e) = res {
        problems.push((format!("loop:{}:error", shape(prog.len())), format!("run_render returned {e:?}")));
    }
    if problems.is_empty() {
        judge(&mut term.screen, shown, prog.len(), &mut problems);
    }
    problems
}

fn loop_json(g: &Grid, surfs: &[Vec<u8>], prog: &[LoopStep]) -> Value {
    json!({
        "kind": "run_render",
        "grid": [g.h, g.w],
        "program": prog.iter().map(|s| json!({"surface": surf_json(g, &surfs[s.surf as usize]), "action": format!("{:?}", s.action), "then": format!("{:?}", s.then)})).collect::<Vec<_>>(),
    })
}

/// every program of up to `calls` handler calls over all surfaces of the grid
fn explore_loop(ctx: &Ctx, alpha: &Alphabet, g: &Grid, calls: usize, events: &[LoopEvent], viol: &Violations) -> u64 {
    use rayon::prelude::*;
    let surfs = surfaces(g);
    let mut steps: Vec<LoopStep> = vec![];
    for s in 0..surfs.len() as u32 {
        for a in LOOP_ACTIONS {
            for e in events.iter().copied() {
                steps.push(LoopStep { surf: s, action: a, then: e });
            }
        }
    }
    let count = AtomicU64::new(0);
    let last: Vec<LoopStep> = (0..surfs.len() as u32).map(|s| LoopStep { surf: s, action: LoopAction::Wait, then: LoopEvent::Timeout }).collect();
    for n in 1..=calls {
        // n - 1 free steps, then a final step (only its surface matters)
        let free = n - 1;
        let total = steps.len().pow(free as u32);
        (0..total).into_par_iter().for_each(|mut i| {
            if ctx.over_cap() {
                return;
            }
            let mut prog = Vec::with_capacity(n);
            for _ in 0..free {
                prog.push(steps[i % steps.len()]);
                i /= steps.len();
            }
            for l in &last {
                prog.push(*l);
                count.fetch_add(1, Ordering::Relaxed);
                match catch(|| loop_program(alpha, g, &surfs, &prog)) {
                    Ok(problems) => {
                        for (k, d) in problems {
                            viol.add(k, d, loop_json(g, &surfs, &prog));
                        }
                    }
                    Err(p) => viol.add(format!("loop:{}", p.key()), format!("run_render panicked: {} ({}:{})", p.message, p.file, p.line), loop_json(g, &surfs, &prog)),
                }
                prog.pop();
            }
        });
    }
    count.load(Ordering::Relaxed)
}

pub fn run(ctx: &Ctx) -> Result<Report, String> {
    let alpha = Alphabet::new();
    let viol = Violations::new();
    let samples = Samples::new(ctx.seed);
    let frames = AtomicU64::new(0);
    let mut per_grid = vec![];
    let mut states = 0u64;
    let mut transitions = 0u64;
    let mut all_fix = true;
    let mut capped = false;
    for (g, depth, lost) in grids(ctx.tier) {
        let r = explore_grid(ctx, &alpha, &g, depth, lost, &viol, &samples, &frames);
        states += r.stats.states;
        transitions += r.stats.transitions;
        all_fix &= r.stats.fixpoint;
        capped |= r.stats.capped;
        per_grid.push(json!({
            "grid": format!("{}x{}", g.h, g.w),
            "cell_kinds": g.kinds.iter().map(|k| KIND_NAMES[*k]).collect::<Vec<_>>(),
            "surfaces": r.surfaces,
            "states": r.stats.states,
            "transitions": r.stats.transitions,
            "levels": r.stats.levels,
            "depth_bound": depth,
            "fixpoint": r.stats.fixpoint,
            "lost_frame_ops": lost,
            "not_expanded_violating_or_capped": r.stats.pruned,
        }));
    }
    let overlap_surfaces = overlap_sweep(&alpha, &viol);
    // the library's own render loop (`Terminal::run_render`): every program of up to 3 handler calls
    let loop_grid = Grid { h: 1, w: 2, kinds: vec![0, 2, 3, 7] };
    let loop_grid2 = Grid { h: 2, w: 2, kinds: vec![0, 7] };
    let mut loop_programs = explore_loop(ctx, &alpha, &loop_grid, 3, &LOOP_EVENTS, &viol);
    loop_programs += explore_loop(ctx, &alpha, &loop_grid2, ctx.tier.pick(2, 3), &LOOP_EVENTS, &viol);
    // an image two cells wide next to a character, with resizes that change the pixel size only
    let loop_grid3 = Grid { h: 1, w: 2, kinds: vec![0, 1, 8] };
    loop_programs += explore_loop(ctx, &alpha, &loop_grid3, 3, &LOOP_EVENTS_ZOOM, &viol);
    capped |= ctx.over_cap();
    // logging switched on (the renderer, the glyph rasteriser and the render loop log through `tracing`): two-frame
    // histories over a grid with a glyph and an image, and the two-call run_render programs, on this thread under a
    // subscriber that formats every log line; the verdicts must be those of the silent runs
    let mut logged = 0u64;
    crate::engine::logging::with_logging(|| {
        let g = Grid { h: 1, w: 3, kinds: vec![0, 2, 7, 10] };
        let surfs = surfaces(&g);
        for a in 0..surfs.len() as u32 {
            for b in 0..surfs.len() as u32 {
                for hist in [vec![Op::Frame(a), Op::Frame(b)], vec![Op::Frame(a), Op::Clear, Op::Frame(b)]] {
                    logged += 1;
                    match catch(|| step(&alpha, &g, &surfs, &hist, true)) {
                        Ok((_, problems)) => {
                            for (k, d) in problems {
                                let mut w = history_json(&g, &surfs, &hist);
                                w["logging"] = json!(true);
                                viol.add(format!("logging:{k}"), format!("with a tracing subscriber listening: {d}"), w);
                            }
                        }
                        Err(p) => {
                            let mut w = history_json(&g, &surfs, &hist);
                            w["logging"] = json!(true);
                            viol.add(format!("logging:{}", p.key()), format!("with a tracing subscriber listening: panicked: {} ({}:{})", p.message, p.file, p.line), w);
                        }
                    }
                }
            }
        }
        let surfs = surfaces(&loop_grid);
        for s0 in 0..surfs.len() as u32 {
            for a in LOOP_ACTIONS {
                for e in LOOP_EVENTS {
                    for s1 in 0..surfs.len() as u32 {
                        logged += 1;
                        let prog = [LoopStep { surf: s0, action: a, then: e }, LoopStep { surf: s1, action: LoopAction::Wait, then: LoopEvent::Timeout }];
                        let res = catch(|| loop_program(&alpha, &loop_grid, &surfs, &prog));
                        let mut w = loop_json(&loop_grid, &surfs, &prog);
                        w["logging"] = json!(true);
                        match res {
                            Ok(problems) => {
                                for (k, d) in problems {
                                    viol.add(format!("logging:{k}"), format!("with a tracing subscriber listening: {d}"), w.clone());
                                }
                            }
                            Err(p) => viol.add(format!("logging:loop:{}", p.key()), format!("with a tracing subscriber listening: run_render panicked: {} ({}:{})", p.message, p.file, p.line), w),
                        }
                    }
                }
            }
        }
    });
    let mut r = Report::new("model_checking");
    r.set("histories_and_programs_with_logging_on", logged);
    r.set("overlap_surfaces_2x4", overlap_surfaces);
    r.set("run_render_programs", json!({"programs": loop_programs, "what": "programs of up to 3 handler calls (surface x Wait / WaitNoFrame / Sleep(0) x next event timeout / wake / resize / more than 32 frames pending) through Terminal::run_render on a scripted terminal; after every rendered frame the screen must equal a from-scratch repaint", "grids": ["1x2 over blank, a/red, blank/red, img1x1", "2x2 over blank, img1x1"]}));
    r.set("states", states)
        .set("transitions", transitions)
        .set("traces_validated_against_impl", transitions)
        .set("frames_rendered", frames.load(Ordering::Relaxed))
        .set("grids", per_grid)
        .set("fixpoint_on_all_grids", all_fix)
        .set("capped", capped)
        .set("exhaustive", all_fix && !capped)
        .set("raw_violations", viol.raw_count())
        .set("samples", samples.into_vec());
    r.assume("VT semantics of model/screen.rs (xterm/ECMA-48/kitty): ECH erases with the current background only; overwriting half of a wide character blanks the other half keeping its rendition");
    r.assume("display width as defined by unicode-width (the library's own definition)");
    r.assume("grids up to the listed sizes and the 24 cell kinds; every transition is a real TerminalRenderer::frame call");
    r.violations = viol.into_vec();
    Ok(r)
}

pub fn replay(w: &Value) -> Result<(bool, String), String> {
    if w["logging"] == json!(true) {
        let mut w2 = w.clone();
        w2["logging"] = json!(false);
        return crate::engine::logging::with_logging(|| replay(&w2));
    }
    let alpha = Alphabet::new();
    let gh = w["grid"][0].as_u64().ok_or("grid")? as usize;
    let gw = w["grid"][1].as_u64().ok_or("grid")? as usize;
    let g = Grid { h: gh, w: gw, kinds: (0..KIND_NAMES.len()).collect() };
    let mut surfs: Vec<Vec<u8>> = vec![];
    let mut hist: Vec<Op> = vec![];
    if w["kind"].as_str() == Some("overlap") {
        let mut sf = vec![];
        for row in w["surface"].as_array().ok_or("surface")? {
            for cell in row.as_array().ok_or("row")? {
                sf.push(KIND_NAMES.iter().position(|n| Some(*n) == cell.as_str()).ok_or("kind")? as u8);
            }
        }
        let screen = catch(|| from_scratch(&alpha, &g, &sf)).map_err(|p| format!("frame panicked: {}", p.message))?;
        let rects: Vec<(usize, usize, usize, usize)> = screen.placements.iter().map(|(id, pos)| (pos.row, pos.row + id.height.div_ceil(2), pos.col, pos.col + id.width.div_ceil(2))).collect();
        let mut bad = false;
        for i in 0..rects.len() {
            for j in 0..i {
                let (a, b) = (rects[i], rects[j]);
                bad |= a.0 < b.1 && b.0 < a.1 && a.2 < b.3 && b.2 < a.3;
            }
        }
        return Ok((bad, format!("placements after a from-scratch frame (rows, cols in cells): {:?}", rects)));
    }
    if w["kind"].as_str() == Some("run_render") {
        let mut prog = vec![];
        for st in w["program"].as_array().ok_or("program")? {
            let mut sf = vec![];
            for row in st["surface"].as_array().ok_or("surface")? {
                for cell in row.as_array().ok_or("row")? {
                    sf.push(KIND_NAMES.iter().position(|n| Some(*n) == cell.as_str()).ok_or("kind")? as u8);
                }
            }
            surfs.push(sf);
            let action = LOOP_ACTIONS.into_iter().find(|a| Some(format!("{a:?}").as_str()) == st["action"].as_str()).ok_or("action")?;
            let then = LOOP_EVENTS_ZOOM.into_iter().find(|a| Some(format!("{a:?}").as_str()) == st["then"].as_str()).ok_or("then")?;
            prog.push(LoopStep { surf: surfs.len() as u32 - 1, action, then });
        }
        return Ok(match catch(|| loop_program(&alpha, &g, &surfs, &prog)) {
            Ok(problems) => (!problems.is_empty(), format!("program {:?}\n{}", prog, problems.iter().map(|(k, d)| format!("  {k}: {d}\n")).collect::<String>())),
            Err(p) => (true, format!("run_render panicked: {} ({}:{})", p.message, p.file, p.line)),
        });
    }
    let parse_surface = |v: &Value| -> Result<Vec<u8>, String> {
        let mut s = vec![];
        for row in v.as_array().ok_or("surface")? {
            for cell in row.as_array().ok_or("row")? {
                let name = cell.as_str().ok_or("cell")?;
                let k = KIND_NAMES.iter().position(|n| *n == name).ok_or("kind")?;
                s.push(k as u8);
            }
        }
        if s.len() != gh * gw {
            return Err("surface size".into());
        }
        Ok(s)
    };
    for op in w["history"].as_array().ok_or("history")? {
        let name = op["op"].as_str().ok_or("op")?;
        let mut surface = || -> Result<u32, String> {
            surfs.push(parse_surface(&op["surface"])?);
            Ok(surfs.len() as u32 - 1)
        };
        hist.push(match name {
            "Frame" => Op::Frame(surface()?),
            "NoFrame" => Op::NoFrame(surface()?),
            "Clear" => Op::Clear,
            "Recreate" => Op::Recreate,
            "LostThenClear" => Op::LostThenClear(surface()?),
            _ => return Err("unknown op".into()),
        });
    }
    // verbose re-execution
    let mut detail = String::new();
    let mut e = Exec::new(&g);
    for op in &hist {
        e.apply(&alpha, &g, &surfs, op);
        detail += &format!("{:?}\n", op);
    }
    detail += &format!("screen after history: {:?}\nplacements: {:?}\n", e.screen.visible(), e.screen.placements);
    if let Some(Op::Frame(s)) = hist.last() {
        let scratch = from_scratch(&alpha, &g, &surfs[*s as usize]);
        detail += &format!("from-scratch repaint: {:?}\nplacements: {:?}\n", scratch.visible(), scratch.placements);
    }
    let res = catch(|| step(&alpha, &g, &surfs, &hist, true));
    match res {
        Ok((_, problems)) => {
            for (k, what) in &problems {
                detail += &format!("  {k}: {what}\n");
            }
            Ok((!problems.is_empty(), detail))
        }
        Err(p) => Ok((true, format!("{detail}panic: {} ({}:{})", p.message, p.file, p.line))),
    }
}
