//! C17 -- wake-ups and signals are never lost and the tty is restored on every exit path.
//!
//! Same explorer and kernel model as C16(b) (prop/term_common.rs); additionally environment
//! events (waker calls, SIGWINCH, SIGTERM, input chunks, hang-up) may land at ANY system-call
//! boundary of the poll loop (each costs one deviation), and the terminal object is released at
//! every crash point (after every prefix of every session).
use super::term_common::{self as tc, Focus};
use crate::engine::report::{Ctx, Report};
use crate::engine::workers::WorkerCtx;
use serde_json::{json, Value};

pub fn worker(ctx: &Ctx, wc: WorkerCtx, _extra: &[String]) {
    super::c16::worker_for(Focus::C17, ctx, wc)
}

/// child-process entry: successive terminal objects on one pty device number (real system calls)
pub fn successive_main() {
    let both = tc::successive_terminals_check().and_then(|(r1, mut p1)| {
        tc::descriptor_placement_check().map(|(r2, p2)| {
            p1.extend(p2);
            (r1 + r2, p1)
        })
    });
    let both = both.and_then(|(r1, mut p1)| {
        tc::arrival_order_check().map(|(r2, p2)| {
            p1.extend(p2);
            (r1 + r2, p1)
        })
    });
    let both = both.and_then(|(r1, mut p1)| {
        tc::tee_release_check().map(|(r2, p2)| {
            p1.extend(p2);
            (r1 + r2, p1)
        })
    });
    match both {
        Ok((runs, problems)) => {
            let ps: Vec<Value> = problems.iter().map(|(k, w)| json!([k, w])).collect();
            println!("SUCCESSIVE {}", json!({"runs": runs, "problems": ps}));
        }
        Err(e) => println!("SUCCESSIVE {}", json!({"error": e})),
    }
}

fn successive_in_child() -> Result<Value, String> {
    let exe = std::env::current_exe().map_err(|e| format!("{e}"))?;
    let out = std::process::Command::new(exe).arg("C17").arg("--successive").output().map_err(|e| format!("{e}"))?;
    let text = String::from_utf8_lossy(&out.stdout);
    for line in text.lines() {
        if let Some(rest) = line.strip_prefix("SUCCESSIVE ") {
            return serde_json::from_str::<Value>(rest).map_err(|e| format!("{e}"));
        }
    }
    // no summary: the child died. If it died inside a descriptor placement the library crashed the process on a
    // valid descriptor, which is a verdict about the library; anywhere else it is a machinery error.
    let mut problems: Vec<Value> = vec![];
    let mut open: Option<String> = None;
    for line in text.lines() {
        if let Some(rest) = line.strip_prefix("PROBLEM ") {
            if let Ok(v) = serde_json::from_str::<Value>(rest) {
                problems.push(v);
            }
        } else if let Some(rest) = line.strip_prefix("PLACEMENT-BEGIN ") {
            open = Some(rest.to_string());
        } else if line.starts_with("PLACEMENT-END") {
            open = None;
        }
    }
    if let Some(what) = open {
        problems.push(json!(["placement:crash", format!("{what}: the process was aborted during the session ({})", out.status)]));
        return Ok(json!({"runs": 0, "problems": problems}));
    }
    Err(format!("successive-terminals child produced no summary (status {})", out.status))
}

pub fn run(ctx: &Ctx) -> Result<Report, String> {
    // two terminal objects, one after the other, on one pty device number (before the workers start: pty numbers
    // are shared by all processes)
    let successive = successive_in_child()?;
    if let Some(e) = successive.get("error") {
        return Err(format!("successive-terminals check: {e}"));
    }
    let merged = super::c16::run_terminal(ctx, Focus::C17, "C17")?;
    let c = |k: &str| merged.counters.get(k).copied().unwrap_or(0);
    let mut r = Report::new("fault_enumeration");
    let units = merged.notes.get("unit").cloned().unwrap_or_default();
    r.set("evaluations", c("executions"))
        .set("distinct_nontrivial", c("distinct_outcomes"))
        .set(
            "rule",
            "an evaluation is one complete execution of a scripted session of the real UnixTerminal on a pty under one schedule of environment answers \
             (kernel answers and injected wake / SIGWINCH / SIGTERM / input / hang-up events at system-call boundaries), all schedules with at most \
             the stated number of deviations, for every crash point; distinct_nontrivial = sum over (session, crash point) of distinct observable \
             outcomes (bytes received by the tty, events returned, termios restored)",
        )
        .set("counters", json!(merged.counters))
        .set("units", json!(units.clone()))
        .set("exhaustive", !merged.capped && c("capped_units") == 0)
        .set("capped", merged.capped || c("capped_units") > 0)
        .set("samples", json!(units.into_iter().take(4).collect::<Vec<_>>()));
    r.assume("kernel model of the H2 seam (see C16); a waker call is one atomic non-blocking write, so 'another thread called it between system calls i and i+1' is all there is to enumerate");
    r.assume("signals are raised synchronously on the polling thread (raise), which is the self-pipe's view of asynchronous delivery");
    r.assume("fairness: the peer keeps draining and answers DA1, so the closing sequence can be delivered within dispose's own time budget");
    r.assume("order between events of different sources arriving within one select round is not judged (the kernel does not define it)");
    r.set("successive_terminals_on_one_device", successive.clone());
    let mut violations = merged.violations;
    if let Some(ps) = successive["problems"].as_array() {
        for p in ps {
            violations.push(crate::engine::report::Violation {
                key: format!("C17:{}", p[0].as_str().unwrap_or("successive")),
                what: p[1].as_str().unwrap_or("").to_string(),
                witness: json!({"kind": "successive-terminals"}),
            });
        }
    }
    r.violations = violations;
    Ok(r)
}

pub fn replay(w: &Value) -> Result<(bool, String), String> {
    match w["kind"].as_str() {
        Some("session") => tc::replay_session(w),
        Some("session-unit") => super::c16::replay(w),
        Some("successive-terminals") => {
            let v = successive_in_child()?;
            let bad = v["problems"].as_array().map(|a| !a.is_empty()).unwrap_or(false);
            Ok((bad, format!("successive terminals on one pty device number: {v}")))
        }
        _ => Err("unknown witness kind".into()),
    }
}
