//! C04 -- every well-formed terminal report or key sequence decodes to what it encodes.
//!
//! The independent printers of `model::keytable` produce, for an *intended* event, the bytes a
//! terminal sends; the real `TTYEventDecoder` (driven through `Decoder::decode_into` over
//! `std::io::Cursor`s, one cursor per read) must return exactly the intended events.
//!
//! Part 1 - per-family parameter lattices, each enumerated in full (see `run`).
//! Part 2 - sequences: all ordered pairs (quick) / triples (thorough) of representative
//!          self-delimiting tokens under every partition into reads with at most two cuts.
//!
//! For every case three things are checked:
//!   * the decoded event list equals the intended one (`wrong-event` / `raw` / `count`);
//!   * the events are there when the last byte of the sequence has been read (`late`), except
//!     for keys whose bytes are a proper prefix of other sequences (ESC, ESC [, ESC O, ESC P,
//!     ESC ], ESC _), which must appear once a following ESC rules the longer reading out;
//!   * afterwards the decoder holds nothing but that trailing ESC (`residual`) - a complete
//!     sequence never leaves bytes behind that would be merged with its neighbour.
use crate::engine::catch;
use crate::engine::report::{Ctx, Report, Tier, Violations};
use crate::engine::util::{esc, hash64, hex, unhex};
use crate::model::keytable::*;
use rayon::prelude::*;
use serde_json::{json, Value};
use std::collections::BTreeMap;
use std::io::Cursor;
use std::sync::Mutex;
use surf_n_term::decoder::{Decoder, TTYEventDecoder};
use surf_n_term::{
    DecMode, DecModeStatus, Face, FaceAttrs, FaceModify, Key, KeyMod, KeyName, TerminalColor, TerminalCommand,
    TerminalEvent, UnderlineStyle, RGBA,
};

// ---------------------------------------------------------------------------------------------
// observation: library event -> model event (field extraction only)
// ---------------------------------------------------------------------------------------------

fn kname(n: KeyName) -> KName {
    match n {
        KeyName::Backspace => KName::Backspace,
        KeyName::Char(c) => KName::Char(c),
        KeyName::Delete => KName::Delete,
        KeyName::Insert => KName::Insert,
        KeyName::Down => KName::Down,
        KeyName::End => KName::End,
        KeyName::Enter => KName::Enter,
        KeyName::Esc => KName::Esc,
        KeyName::F(i) => KName::F(i),
        KeyName::Home => KName::Home,
        KeyName::Left => KName::Left,
        KeyName::MouseLeft => KName::MouseLeft,
        KeyName::MouseMiddle => KName::MouseMiddle,
        KeyName::MouseMove => KName::MouseMove,
        KeyName::MouseRight => KName::MouseRight,
        KeyName::MouseWheelDown => KName::MouseWheelDown,
        KeyName::MouseWheelUp => KName::MouseWheelUp,
        KeyName::PageDown => KName::PageDown,
        KeyName::PageUp => KName::PageUp,
        KeyName::Right => KName::Right,
        KeyName::Tab => KName::Tab,
        KeyName::Up => KName::Up,
    }
}

fn kmods(m: KeyMod) -> u32 {
    let mut bits = 0;
    for (flag, bit) in [
        (KeyMod::SHIFT, SHIFT),
        (KeyMod::ALT, ALT),
        (KeyMod::CTRL, CTRL),
        (KeyMod::SUPER, SUPER),
        (KeyMod::HYPER, HYPER),
        (KeyMod::META, META),
        (KeyMod::CAPSLOCK, CAPS),
        (KeyMod::NUMLOCK, NUM),
        (KeyMod::PRESS, PRESS),
    ] {
        if m.contains(flag) {
            bits |= bit;
        }
    }
    bits
}

fn rgb_of(c: RGBA) -> (Rgb, u8) {
    ([c.red(), c.green(), c.blue()], c.alpha())
}

/// colours inside faces are opaque in every expected value; a non-opaque one is made visible
fn opaque(c: Option<RGBA>) -> Result<Option<Rgb>, String> {
    match c {
        None => Ok(None),
        Some(c) => {
            let (rgb, a) = rgb_of(c);
            if a == 255 {
                Ok(Some(rgb))
            } else {
                Err(format!("non-opaque colour {:?}", c))
            }
        }
    }
}

fn ustyle(u: UnderlineStyle) -> UStyle {
    match u {
        UnderlineStyle::None => UStyle::None,
        UnderlineStyle::Straight => UStyle::Straight,
        UnderlineStyle::Double => UStyle::Double,
        UnderlineStyle::Curly => UStyle::Curly,
        UnderlineStyle::Dotted => UStyle::Dotted,
        UnderlineStyle::Dashed => UStyle::Dashed,
    }
}

fn observe_modify(m: &FaceModify) -> Result<MModify, String> {
    Ok(MModify {
        reset: m.reset,
        fg: opaque(m.fg)?,
        bg: opaque(m.bg)?,
        underline: m.underline.map(ustyle),
        underline_color: opaque(m.underline_color)?,
        bold: m.bold,
        italic: m.italic,
        blink: m.blink,
        strike: m.strike,
    })
}

fn observe_face(f: &Face) -> Result<MFace, String> {
    Ok(MFace {
        fg: opaque(f.fg)?,
        bg: opaque(f.bg)?,
        underline: ustyle(f.attrs.underline()),
        bold: f.attrs.contains(FaceAttrs::BOLD),
        italic: f.attrs.contains(FaceAttrs::ITALIC),
        blink: f.attrs.contains(FaceAttrs::BLINK),
        reverse: f.attrs.contains(FaceAttrs::REVERSE),
        strike: f.attrs.contains(FaceAttrs::STRIKE),
    })
}

fn observe(e: &TerminalEvent) -> Ev {
    let other = |why: String| Ev::Other(format!("{:?} ({})", e, why));
    match e {
        TerminalEvent::Key(Key { name, mode }) => Ev::Key { name: kname(*name), mods: kmods(*mode) },
        TerminalEvent::Mouse(m) => Ev::Mouse { name: kname(m.name), mods: kmods(m.mode), row: m.pos.row, col: m.pos.col },
        TerminalEvent::CursorPosition(p) => Ev::CursorPosition { row: p.row, col: p.col },
        TerminalEvent::Size(s) => Ev::Size {
            cells_h: s.cells.height,
            cells_w: s.cells.width,
            px_h: s.pixels.height,
            px_w: s.pixels.width,
        },
        TerminalEvent::DecMode { mode, status } => Ev::DecMode {
            // the DEC private mode number each variant stands for (xterm ctlseqs / contour sync spec)
            mode: match mode {
                DecMode::VisibleCursor => 25,
                DecMode::AutoWrap => 7,
                DecMode::SixelScrolling => 80,
                DecMode::MouseReport => 1000,
                DecMode::MouseMotions => 1003,
                DecMode::MouseSGR => 1006,
                DecMode::AltScreen => 1049,
                DecMode::SynchronizedOutput => 2026,
                DecMode::BracketedPaste => 2004,
            },
            status: match status {
                DecModeStatus::NotRecognized => 0,
                DecModeStatus::Enabled => 1,
                DecModeStatus::Disabled => 2,
                DecModeStatus::PermanentlyEnabled => 3,
                DecModeStatus::PermanentlyDisabled => 4,
            },
        },
        TerminalEvent::DeviceAttrs(set) => Ev::DeviceAttrs(set.clone()),
        TerminalEvent::Color { name, color } => {
            let (c, alpha) = rgb_of(*color);
            Ev::Color {
                name: match name {
                    TerminalColor::Background => ColorName::Background,
                    TerminalColor::Foreground => ColorName::Foreground,
                    TerminalColor::Palette(i) => ColorName::Palette(*i),
                },
                comps: [(c[0], c[0]), (c[1], c[1]), (c[2], c[2])],
                alpha,
            }
        }
        TerminalEvent::Termcap(map) => Ev::Termcap(map.clone()),
        TerminalEvent::KeyboardLevel(n) => Ev::KeyboardLevel(*n),
        TerminalEvent::KittyImage { id, placement, error } => {
            Ev::KittyImage { id: *id, placement: *placement, error: error.clone() }
        }
        TerminalEvent::Paste(s) => Ev::Paste(s.clone()),
        TerminalEvent::FaceGet(face) => match observe_face(face) {
            Ok(f) => Ev::FaceGet(f),
            Err(why) => other(why),
        },
        TerminalEvent::Command(TerminalCommand::FaceModify(m)) => match observe_modify(m) {
            Ok(m) => Ev::FaceModify(m),
            Err(why) => other(why),
        },
        TerminalEvent::Raw(b) => Ev::Raw(b.clone()),
        _ => other("no model name".into()),
    }
}

// ---------------------------------------------------------------------------------------------
// one evaluation
// ---------------------------------------------------------------------------------------------

struct Outcome {
    kind: String,
    detail: String,
    /// index of the first intended event that was not decoded as intended (if that is the failure)
    at: Option<usize>,
}

struct Decoded {
    events: Vec<Ev>,
    /// number of events delivered before the trailing ESC was fed
    before_flush: usize,
    buffer_after: Vec<u8>,
    rescheduled_after: Vec<u8>,
}

/// Feed `bytes` split at `cuts` (strictly increasing positions inside 1..len), one cursor per
/// read, then a lone ESC in its own read.
fn decode_real(bytes: &[u8], cuts: &[usize]) -> Result<Decoded, String> {
    let mut dec = TTYEventDecoder::new();
    let mut out: Vec<TerminalEvent> = Vec::new();
    let mut start = 0;
    for end in cuts.iter().copied().chain(std::iter::once(bytes.len())) {
        dec.decode_into(Cursor::new(&bytes[start..end]), &mut out).map_err(|e| format!("decode error {e:?}"))?;
        start = end;
    }
    let before_flush = out.len();
    if !cuts.is_empty() {
        // the same boundaries inside ONE reader that hands out its content in pieces (a small BufReader, Chain, a
        // wrapped VecDeque): `decode` called until the reader is exhausted must give the same events
        let mut parts = vec![];
        let mut at = 0;
        for end in cuts.iter().copied().chain(std::iter::once(bytes.len())) {
            parts.push(end - at);
            at = end;
        }
        let mut dec2 = TTYEventDecoder::new();
        let mut reader = super::decoder_common::SlicedReader::new(bytes, &parts);
        let mut out2: Vec<TerminalEvent> = Vec::new();
        let mut budget = 2 * bytes.len() + 64;
        loop {
            budget -= 1;
            if budget == 0 {
                return Err("decode on one reader handing out pieces does not terminate".into());
            }
            match dec2.decode(&mut reader).map_err(|e| format!("decode error {e:?}"))? {
                Some(e) => out2.push(e),
                None => {
                    if reader.exhausted() {
                        break;
                    }
                }
            }
        }
        let a: Vec<Ev> = out.iter().map(observe).collect();
        let b: Vec<Ev> = out2.iter().map(observe).collect();
        if a != b {
            return Err(format!("one read per piece gives {} but one reader handing out the pieces {:?} gives {}", show(&a), parts, show(&b)));
        }
    }
    dec.decode_into(Cursor::new(&b"\x1b"[..]), &mut out).map_err(|e| format!("decode error {e:?}"))?;
    let snap = dec.verif_snapshot();
    Ok(Decoded {
        events: out.iter().map(observe).collect(),
        before_flush,
        buffer_after: snap.buffer,
        rescheduled_after: snap.rescheduled,
    })
}

fn show(evs: &[Ev]) -> String {
    let s = format!("{:?}", evs);
    if s.len() > 600 {
        let mut end = 600;
        while !s.is_char_boundary(end) {
            end -= 1;
        }
        format!("{}...", &s[..end])
    } else {
        s
    }
}

/// `pending`: how many of the trailing expected events may only be delivered at the flush
fn eval(bytes: &[u8], cuts: &[usize], expect: &[Ev], pending: usize) -> Option<Outcome> {
    let d = match catch(|| decode_real(bytes, cuts)) {
        Err(p) => {
            return Some(Outcome {
                kind: p.key(),
                detail: format!("panicked: {} ({}:{}); intended {}", p.message, p.file, p.line, show(expect)),
                at: None,
            })
        }
        Ok(Err(e)) => return Some(Outcome { kind: "decode-error".into(), detail: e, at: None }),
        Ok(Ok(d)) => d,
    };
    let same = d.events.len() == expect.len() && expect.iter().zip(&d.events).all(|(e, o)| e.accepts(o));
    if !same {
        let kind = if d.events.iter().any(|e| matches!(e, Ev::Raw(_))) {
            "raw"
        } else if d.events.len() != expect.len() {
            "count"
        } else {
            "wrong-event"
        };
        let at = (0..expect.len()).find(|i| d.events.get(*i).map_or(true, |o| !expect[*i].accepts(o)));
        return Some(Outcome {
            kind: kind.into(),
            detail: format!("intended {} but decoded {}", show(expect), show(&d.events)),
            at: Some(at.unwrap_or(expect.len().saturating_sub(1))),
        });
    }
    if d.before_flush != expect.len() - pending {
        return Some(Outcome {
            kind: "late".into(),
            detail: format!(
                "{} of {} events were delivered when the last byte had been read, expected {} (the rest appeared only after further input)",
                d.before_flush,
                expect.len(),
                expect.len() - pending
            ),
            at: None,
        });
    }
    if d.buffer_after != b"\x1b" || !d.rescheduled_after.is_empty() {
        return Some(Outcome {
            kind: "residual".into(),
            detail: format!(
                "after the sequence and a trailing ESC the decoder holds buffer={:?} rescheduled={:?} (expected just the ESC)",
                esc(&d.buffer_after),
                esc(&d.rescheduled_after)
            ),
            at: None,
        });
    }
    None
}

/// call `f` with every cut list of at most `max_cuts` cuts
fn for_each_cuts(n: usize, max_cuts: usize, mut f: impl FnMut(&[usize])) {
    f(&[]);
    if max_cuts >= 1 {
        for a in 1..n {
            f(&[a]);
        }
    }
    if max_cuts >= 2 {
        for a in 1..n {
            for b in a + 1..n {
                f(&[a, b]);
            }
        }
    }
}

// ---------------------------------------------------------------------------------------------
// bookkeeping
// ---------------------------------------------------------------------------------------------

#[derive(Default)]
struct Local {
    cases: u64,
    decodes: u64,
    skipped: u64,
    in_hashes: Vec<u64>,
    ev_hashes: Vec<u64>,
}

impl Local {
    fn compact(v: &mut Vec<u64>) {
        v.par_sort_unstable();
        v.dedup();
    }
    fn merge(mut self, mut o: Local) -> Local {
        self.cases += o.cases;
        self.decodes += o.decodes;
        self.skipped += o.skipped;
        self.in_hashes.append(&mut o.in_hashes);
        self.ev_hashes.append(&mut o.ev_hashes);
        if self.ev_hashes.len() > (1 << 20) {
            Self::compact(&mut self.ev_hashes);
        }
        self
    }
}

struct FamilyStat {
    cases: u64,
    decodes: u64,
    skipped: u64,
    max_cuts: usize,
    example: Value,
}

struct State<'a> {
    ctx: &'a Ctx,
    viol: Violations,
    families: Mutex<BTreeMap<&'static str, FamilyStat>>,
    in_hashes: Mutex<Vec<u64>>,
    ev_hashes: Mutex<Vec<u64>>,
}

/// One lattice case produced by a generator
#[derive(Clone)]
struct Case {
    /// violation sub-key (keeps keys coarse: `<family>/<sub>:<kind>`)
    sub: &'static str,
    bytes: Vec<u8>,
    expect: Vec<Ev>,
    pending: usize,
}

fn one(sub: &'static str, (bytes, ev): (Vec<u8>, Ev)) -> Case {
    Case { sub, bytes, expect: vec![ev], pending: 0 }
}

fn witness(family: &str, label: &str, bytes: &[u8], cuts: &[usize], expect: &[Ev], pending: usize) -> Value {
    json!({
        "family": family,
        "label": label,
        "bytes": hex(bytes),
        "text": esc(bytes),
        "cuts": cuts,
        "expect": serde_json::to_value(expect).unwrap(),
        "pending": pending,
    })
}

/// Long payloads (a paste or a kitty response message of `len` bytes): built from a short description so that
/// witnesses stay small. `fill` 0 = ASCII letters, 1 = two-byte characters.
fn long_case(what: &str, len: usize, fill: u64) -> (Vec<u8>, Vec<Ev>) {
    let text: String = if fill == 0 {
        (0..len).map(|i| (b'a' + (i % 26) as u8) as char).collect()
    } else {
        (0..len / 2).map(|i| char::from_u32(0xe0 + (i % 30) as u32).unwrap()).collect()
    };
    let (bytes, ev) = if what == "paste" { print_paste(&text) } else { print_kitty_image(7, Some(3), None, &format!("EINVAL:{text}")) };
    (bytes, vec![ev])
}

/// cut positions for reads of `chunk` bytes (0 = one read)
fn chunk_cuts(n: usize, chunk: usize) -> Vec<usize> {
    if chunk == 0 {
        vec![]
    } else {
        (1..).map(|k| k * chunk).take_while(|c| *c < n).collect()
    }
}

const LONG_LENS: [usize; 14] = [255, 256, 4095, 4096, 65_524, 65_525, 65_536, 65_537, 66_000, 1_048_564, 1_048_565, 1_048_576, 1_048_577, 1_100_000];
const LONG_CHUNKS: [usize; 4] = [0, 4096, 65_536, 1_000_003];

fn eval_long(what: &str, len: usize, fill: u64, chunk: usize) -> Option<Outcome> {
    let (bytes, expect) = long_case(what, len, fill);
    let cuts = chunk_cuts(bytes.len(), chunk);
    eval(&bytes, &cuts, &expect, 0).map(|mut o| {
        if o.detail.len() > 400 {
            let mut end = 400;
            while !o.detail.is_char_boundary(end) {
                end -= 1;
            }
            o.detail.truncate(end);
            o.detail.push_str("...");
        }
        o
    })
}

impl<'a> State<'a> {
    /// Evaluate every case `gen(i)`, i in 0..n (None = outside the property, counted as skipped),
    /// under every partition with at most `max_cuts` cuts.
    fn family<G>(&self, family: &'static str, max_cuts: usize, n: u64, gen: G)
    where
        G: Fn(u64) -> Option<Case> + Sync,
    {
        let local = (0..n)
            .into_par_iter()
            .fold(Local::default, |mut l, i| {
                let Some(c) = gen(i) else {
                    l.skipped += 1;
                    return l;
                };
                l.cases += 1;
                l.in_hashes.push(hash64(&c.bytes));
                for e in &c.expect {
                    l.ev_hashes.push(hash64(e));
                }
                if l.ev_hashes.len() > (1 << 20) {
                    Local::compact(&mut l.ev_hashes);
                }
                for_each_cuts(c.bytes.len(), max_cuts, |cuts| {
                    l.decodes += 1;
                    if let Some(o) = eval(&c.bytes, cuts, &c.expect, c.pending) {
                        self.viol.add(
                            format!("{}/{}:{}", family, c.sub, o.kind),
                            format!("[{}] {} read as {:?}: {}", family, esc(&c.bytes), cuts, o.detail),
                            witness(family, c.sub, &c.bytes, cuts, &c.expect, c.pending),
                        );
                    }
                });
                l
            })
            .reduce(Local::default, Local::merge);
        let example = (0..n)
            .find_map(|i| gen(i))
            .map(|c| json!({"input": esc(&c.bytes), "intended": format!("{:?}", c.expect)}))
            .unwrap_or(Value::Null);
        let mut fam = self.families.lock().unwrap();
        let prev = fam.insert(
            family,
            FamilyStat { cases: local.cases, decodes: local.decodes, skipped: local.skipped, max_cuts, example },
        );
        assert!(prev.is_none(), "family {family} registered twice");
        drop(fam);
        let mut l = local;
        self.in_hashes.lock().unwrap().append(&mut l.in_hashes);
        self.ev_hashes.lock().unwrap().append(&mut l.ev_hashes);
    }

    fn family_vec(&self, family: &'static str, max_cuts: usize, cases: Vec<Case>) {
        self.family(family, max_cuts, cases.len() as u64, |i| Some(cases[i as usize].clone()));
    }
}

// ---------------------------------------------------------------------------------------------
// lattices
// ---------------------------------------------------------------------------------------------

/// coordinate lattice of DESIGN.md (1-based values a terminal can report)
const COORD: [usize; 12] = [1, 2, 9, 10, 94, 223, 224, 255, 256, 999, 1000, 65535];
/// pixel sizes may also be reported as 0 by terminals that do not know them
const PIXELS: [usize; 13] = [0, 1, 2, 9, 10, 94, 223, 224, 255, 256, 999, 1000, 65535];
const COLOR5: [u8; 5] = [0, 1, 127, 128, 255];

fn scalar_from_index(i: u64) -> Option<char> {
    char::from_u32(i as u32)
}

/// the CPR forms the statement resolves in favour of the key: `CSI 1 ; n R`, n = 2..=8
fn cpr_is_modified_f3(row1: usize, col1: usize) -> bool {
    row1 == 1 && (2..=8).contains(&col1)
}

fn attr_ops() -> Vec<SgrOp> {
    let mut v = vec![
        SgrOp::Reset,
        SgrOp::ResetEmpty,
        SgrOp::Bold,
        SgrOp::Italic,
        SgrOp::ItalicOff,
        SgrOp::Blink,
        SgrOp::BlinkOff,
        SgrOp::Strike,
        SgrOp::StrikeOff,
        SgrOp::Underline,
        SgrOp::UnderlineOff,
    ];
    v.extend((0..=5).map(SgrOp::UnderlineStyle));
    v.extend((0..16).map(SgrOp::NamedFg));
    v.extend((0..16).map(SgrOp::NamedBg));
    v
}

fn color_forms7() -> Vec<ColorForm> {
    let mut v = ColorForm::RGB.to_vec();
    v.push(ColorForm::IdxSemi);
    v.push(ColorForm::IdxColon);
    v
}

/// pool for "later parameters win" sequences
fn op_pool() -> Vec<SgrOp> {
    use SgrOp::*;
    vec![
        Reset,
        ResetEmpty,
        Bold,
        Italic,
        ItalicOff,
        Blink,
        Strike,
        StrikeOff,
        Underline,
        UnderlineStyle(3),
        UnderlineStyle(0),
        UnderlineOff,
        NamedFg(1),
        NamedFg(9),
        NamedBg(2),
        NamedBg(10),
        Color(Target::Fg, ColorForm::RgbSemi, [1, 2, 3]),
        Color(Target::Bg, ColorForm::RgbSemi, [4, 5, 6]),
        Color(Target::Ul, ColorForm::RgbSemi, [7, 8, 9]),
        Color(Target::Fg, ColorForm::RgbColon, [255, 128, 64]),
        Color(Target::Bg, ColorForm::RgbColonEmptyCs, [6, 5, 4]),
        Color(Target::Fg, ColorForm::IdxSemi, [150, 0, 0]),
        Color(Target::Bg, ColorForm::IdxColon, [232, 0, 0]),
        Color(Target::Ul, ColorForm::IdxSemi, [5, 0, 0]),
    ]
}

/// every SGR parameter list of the lattice (shared by the SGR and the DECRPSS family)
fn sgr_lattice() -> Vec<(&'static str, Vec<SgrOp>)> {
    let mut out: Vec<(&'static str, Vec<SgrOp>)> = Vec::new();
    // single attribute / named colour parameters
    for op in attr_ops() {
        out.push(("single", vec![op]));
    }
    // indexed colours: every index, both separators, all three targets
    for t in Target::ALL {
        for form in [ColorForm::IdxSemi, ColorForm::IdxColon] {
            for n in 0..=255u8 {
                out.push((if form == ColorForm::IdxSemi { "indexed-semicolon" } else { "indexed-colon" }, vec![SgrOp::Color(t, form, [n, 0, 0])]));
            }
        }
    }
    // true colour, single: every form x 5^3 lattice
    for t in Target::ALL {
        for form in ColorForm::RGB {
            for r in COLOR5 {
                for g in COLOR5 {
                    for b in COLOR5 {
                        out.push((if form == ColorForm::RgbSemi { "rgb-semicolon" } else { "rgb-colon" }, vec![SgrOp::Color(t, form, [r, g, b])]));
                    }
                }
            }
        }
    }
    // multi colour: every ordered choice of 2 or 3 distinct targets x every form per colour
    // x two colour assignments (the second uses component values that are themselves SGR codes)
    // x five surrounding contexts
    let forms = color_forms7();
    let assignments: [[Rgb; 3]; 2] = [[[1, 2, 3], [255, 128, 64], [0, 0, 0]], [[38, 2, 5], [48, 5, 58], [1, 4, 9]]];
    let mut orders: Vec<Vec<Target>> = Vec::new();
    for a in Target::ALL {
        for b in Target::ALL {
            if a != b {
                orders.push(vec![a, b]);
                for c in Target::ALL {
                    if c != a && c != b {
                        orders.push(vec![a, b, c]);
                    }
                }
            }
        }
    }
    for order in &orders {
        let k = order.len();
        let nforms = forms.len().pow(k as u32);
        for fi in 0..nforms {
            let mut f = fi;
            let mut chosen = Vec::new();
            for _ in 0..k {
                chosen.push(forms[f % forms.len()]);
                f /= forms.len();
            }
            let all_semi = chosen.iter().all(|f| matches!(f, ColorForm::RgbSemi | ColorForm::IdxSemi));
            for assign in &assignments {
                let colours: Vec<SgrOp> = (0..k).map(|i| SgrOp::Color(order[i], chosen[i], assign[i])).collect();
                for ctx in 0..5 {
                    let mut ops = Vec::new();
                    match ctx {
                        1 | 3 => ops.push(SgrOp::Bold),
                        4 => ops.push(SgrOp::Reset),
                        _ => {}
                    }
                    ops.extend(colours.iter().copied());
                    if ctx == 2 || ctx == 3 {
                        ops.push(SgrOp::Underline);
                    }
                    out.push((if all_semi { "multi-colour-semicolon" } else { "multi-colour-mixed" }, ops));
                }
            }
        }
    }
    // later parameters win: all ordered pairs and triples over the pool
    let pool = op_pool();
    for a in &pool {
        for b in &pool {
            out.push(("pair", vec![*a, *b]));
            for c in &pool {
                out.push(("triple", vec![*a, *b, *c]));
            }
        }
    }
    out
}

fn hex_lattice() -> Vec<HexComp> {
    let mut v = Vec::new();
    for (digits, values) in [
        (1u32, vec![0x0u32, 0x1, 0x7, 0x8, 0xf]),
        (2, vec![0x00, 0x01, 0x7f, 0x80, 0xff]),
        (3, vec![0x000, 0x7f7, 0x808, 0xfff]),
        (4, vec![0x0000, 0x0101, 0x1d1d, 0x7f7f, 0x8080, 0xcccc, 0xffff]),
    ] {
        for value in values {
            v.push(HexComp { digits, value });
        }
    }
    v
}

fn paste_alphabet() -> Vec<&'static str> {
    vec!["a", "\u{e9}", ";", "[", "\x07", "\n", "~", "0"]
}

// ---------------------------------------------------------------------------------------------
// sequence tokens
// ---------------------------------------------------------------------------------------------

#[derive(Clone)]
struct Token {
    name: String,
    family: &'static str,
    bytes: Vec<u8>,
    events: Vec<Ev>,
    prefix: bool,
}

fn tokens() -> Vec<Token> {
    let mut out: Vec<Token> = Vec::new();
    let keys = legacy_keys();
    let mut key = |bytes: &[u8]| {
        let row = keys.iter().find(|r| r.bytes == bytes).unwrap_or_else(|| panic!("token {:?} not in the key table", esc(bytes)));
        out.push(Token {
            name: format!("key {}", esc(bytes)),
            family: "keys",
            bytes: bytes.to_vec(),
            events: vec![Ev::key(row.name, row.mods)],
            prefix: row.prefix,
        });
    };
    for k in [
        &b"\x1b"[..],
        b"\x1b[",
        b"\x1bO",
        b"\x1bP",
        b"\x1b]",
        b"\x1b_",
        b"\x01",
        b"\x00",
        b"\x7f",
        b"\r",
        b"\x1ba",
        b"\x1bM",
        b"\x1b\\",
        b"\x1b1",
        b"\x1b[A",
        b"\x1b[1;5A",
        b"\x1bOP",
        b"\x1b[R",
        b"\x1b[1;2R",
        b"\x1b[15~",
        b"\x1b[3;6~",
        b"\x1b[H",
        b"\x1b[24~",
    ] {
        key(k);
    }
    let mut tok = |family: &'static str, (bytes, ev): (Vec<u8>, Ev)| {
        out.push(Token { name: format!("{} {}", family, esc(&bytes)), family, bytes, events: vec![ev], prefix: false });
    };
    tok("mouse", print_mouse(0, 1, 1, true));
    tok("mouse", print_mouse(26, 33, 26, false));
    tok("mouse", print_mouse(65, 65535, 65535, true));
    tok("cursor", print_cursor_report(97, 15));
    tok("cursor", print_cursor_report(1, 1));
    tok("size", print_text_area(101, 202, 3104, 1482));
    tok("decrpm", print_decrpm(2004, 1));
    tok("decrpm", print_decrpm(25, 2));
    tok("da1", print_da1(&[62], true));
    tok("da1", print_da1(&[64, 4], false));
    let c = |digits, value| HexComp { digits, value };
    tok("osc", print_osc_color(ColorName::Palette(1), &ColorSpec::Rgb([c(2, 0xcc), c(2, 0x24), c(2, 0x1d)], false), true));
    tok("osc", print_osc_color(ColorName::Foreground, &ColorSpec::Hash([0xeb, 0xdb, 0xb2], false), false));
    tok("osc", print_osc_color(ColorName::Background, &ColorSpec::Rgb([c(4, 0), c(4, 0x8080), c(4, 0xffff)], false), false));
    tok("termcap", print_xtgettcap(true, &[("bel", "^G"), ("bold", "\x1b[1m")], false));
    tok("termcap", print_xtgettcap(false, &[("surf", ""), ("term", "")], false));
    tok("termcap", print_xtgettcap(true, &[], false));
    tok("kitty-key", print_kitty_key(97, None, None, None).unwrap());
    tok("kitty-key", print_kitty_key(99, None, None, Some(5)).unwrap());
    tok("kitty-key", print_kitty_key(27, None, None, Some(7)).unwrap());
    tok("kitty-key", print_kitty_key(57376, None, None, Some(2)).unwrap());
    tok("kitty-key", print_kitty_key(97, Some(65), None, Some(2)).unwrap());
    tok("kitty-level", print_kitty_level(15));
    tok("kitty-image", print_kitty_image(127, None, None, "OK"));
    tok("kitty-image", print_kitty_image(31, Some(11), None, "ENOENT:no such image"));
    tok("paste", print_paste("a;["));
    tok("paste", print_paste(""));
    tok("decrpss", print_decrpss_sgr(&[SgrOp::Reset, SgrOp::Bold, SgrOp::Color(Target::Fg, ColorForm::RgbColonEmptyCs, [1, 2, 3])]));
    tok("decrpss", print_decrpss_sgr(&[SgrOp::Color(Target::Bg, ColorForm::IdxSemi, [150, 0, 0])]));
    tok("sgr", print_sgr(&[SgrOp::ResetEmpty]));
    tok("sgr", print_sgr(&[SgrOp::Bold, SgrOp::Underline, SgrOp::NamedFg(9), SgrOp::NamedBg(10)]));
    tok(
        "sgr",
        print_sgr(&[SgrOp::Color(Target::Fg, ColorForm::RgbSemi, [1, 2, 3]), SgrOp::Color(Target::Bg, ColorForm::RgbSemi, [4, 5, 6])]),
    );
    tok("sgr", print_sgr(&[SgrOp::UnderlineStyle(3)]));
    tok("sgr", print_sgr(&[SgrOp::Color(Target::Fg, ColorForm::IdxColon, [150, 0, 0])]));
    for ch in ['a', '[', 'O', '1', ';', '~', 'R', ' ', 'm', 'u', '\u{e9}', '\u{20ac}', '\u{1f431}'] {
        tok("text", print_text(ch));
    }
    out
}

/// A prefix key may only be followed by a sequence that starts with ESC (otherwise the property
/// allows the longer reading, e.g. ESC [ then A is the Up key).
fn sequence_allowed(seq: &[&Token]) -> bool {
    seq.windows(2).all(|w| !w[0].prefix || w[1].bytes[0] == 0x1b)
}

// ---------------------------------------------------------------------------------------------
// run
// ---------------------------------------------------------------------------------------------

pub fn run(ctx: &Ctx) -> Result<Report, String> {
    let st = State {
        ctx,
        viol: Violations::new(),
        families: Mutex::new(BTreeMap::new()),
        in_hashes: Mutex::new(Vec::new()),
        ev_hashes: Mutex::new(Vec::new()),
    };
    let thorough = ctx.tier == Tier::Thorough;
    let small = 2usize; // small families: every <= 2-cut partition in both tiers
    let medium = 2usize;
    let large = ctx.tier.pick(1usize, 2usize);
    let sweep = ctx.tier.pick(0usize, 1usize); // the million-case sweeps

    // --- legacy key table: every row -----------------------------------------------------
    let rows = legacy_keys();
    {
        let mut seen = std::collections::BTreeSet::new();
        for r in &rows {
            if !seen.insert(r.bytes.clone()) {
                return Err(format!("golden key table lists {:?} twice", esc(&r.bytes)));
            }
        }
    }
    st.family_vec(
        "keys",
        small,
        rows.iter()
            .map(|r| Case { sub: r.group, bytes: r.bytes.clone(), expect: vec![Ev::key(r.name, r.mods)], pending: r.prefix as usize })
            .collect(),
    );

    // --- SGR mouse: all button codes x {M,m} x coordinates^2 --------------------------------
    let nc = COORD.len() as u64;
    // button codes 0..=255: bits 0-1 button, 2-4 shift/meta/control, 5 motion, 6 wheel, 7 the extra buttons 8-11
    // (which the library's naming table folds onto the first four)
    st.family("mouse", medium, 256 * 2 * nc * nc, |i| {
        let (code, press, x, y) = (i % 256, i / 256 % 2 == 0, COORD[(i / 512 % nc) as usize], COORD[(i / 512 / nc) as usize]);
        Some(one(if code & 64 != 0 { "wheel" } else { "button" }, print_mouse(code as u32, x, y, press)))
    });

    // --- cursor position report: dense band 1..=64 squared plus the lattice squared ------------
    let mut cpr: Vec<(usize, usize)> = Vec::new();
    for r in 1..=64 {
        for c in 1..=64 {
            cpr.push((r, c));
        }
    }
    for r in COORD {
        for c in COORD {
            if r > 64 || c > 64 {
                cpr.push((r, c));
            }
        }
    }
    st.family("cursor", medium, cpr.len() as u64, |i| {
        let (r, c) = cpr[i as usize];
        if cpr_is_modified_f3(r, c) {
            // resolved in favour of the key (statement): covered by `cursor-vs-f3`
            return None;
        }
        Some(one("report", print_cursor_report(r, c)))
    });
    st.family("cursor-vs-f3", small, 7, |i| {
        let col = i as usize + 2;
        let (bytes, _) = print_cursor_report(1, col);
        Some(Case { sub: "key-wins", bytes, expect: vec![Ev::key(KName::F(3), col as u32 - 1)], pending: 0 })
    });

    // --- text area size: cells x pixels --------------------------------------------------------
    let np = PIXELS.len() as u64;
    st.family("size", medium, nc * nc * np * np, |i| {
        let (h, w) = (COORD[(i % nc) as usize], COORD[(i / nc % nc) as usize]);
        let j = i / nc / nc;
        let (ph, pw) = (PIXELS[(j % np) as usize], PIXELS[(j / np) as usize]);
        Some(one("report", print_text_area(h, w, ph, pw)))
    });

    // --- DECRPM: 9 modes x 5 statuses -----------------------------------------------------------
    st.family("decrpm", small, 45, |i| {
        Some(one("report", print_decrpm(DEC_MODES[(i / 5) as usize], (i % 5) as usize)))
    });

    // --- DA1: all non-empty subsets of {1,4,6,22,62,64}, ascending/descending, with/without ';' ---
    const DA: [usize; 6] = [1, 4, 6, 22, 62, 64];
    st.family("da1", small, 63 * 4, |i| {
        let mask = i / 4 + 1;
        let mut attrs: Vec<usize> = (0..6).filter(|b| mask >> b & 1 == 1).map(|b| DA[b]).collect();
        if i % 4 >= 2 {
            attrs.reverse();
        }
        Some(one("report", print_da1(&attrs, i % 2 == 1)))
    });

    // --- OSC 4/10/11 colours ----------------------------------------------------------------------
    // (a) every value of every width, in each component position
    let widths: [(u32, u64); 4] = [(1, 16), (2, 256), (3, 4096), (4, 65536)];
    let sweep_total: u64 = widths.iter().map(|w| w.1).sum::<u64>() * 3;
    st.family("osc-rgb-sweep", sweep, sweep_total, |i| {
        let pos = (i % 3) as usize;
        let mut k = i / 3;
        let mut comp = None;
        for (digits, count) in widths {
            if k < count {
                comp = Some(HexComp { digits, value: k as u32 });
                break;
            }
            k -= count;
        }
        let mut comps = [HexComp { digits: 2, value: 0x24 }, HexComp { digits: 4, value: 0x1d1d }, HexComp { digits: 1, value: 0xc }];
        comps[pos] = comp.unwrap();
        Some(one("rgb", print_osc_color(ColorName::Foreground, &ColorSpec::Rgb(comps, false), i % 2 == 0)))
    });
    // (b) lattice^3 x names x terminators x hex case
    let hl = hex_lattice();
    let nh = hl.len() as u64;
    let names = [ColorName::Foreground, ColorName::Background, ColorName::Palette(0), ColorName::Palette(255)];
    st.family("osc-rgb-lattice", large, nh * nh * nh * 4 * 2 * 2, |i| {
        let comps = [hl[(i % nh) as usize], hl[(i / nh % nh) as usize], hl[(i / nh / nh % nh) as usize]];
        let j = i / nh / nh / nh;
        Some(one("rgb", print_osc_color(names[(j % 4) as usize], &ColorSpec::Rgb(comps, j / 4 % 2 == 1), j / 8 == 1)))
    });
    // (c) every palette index
    st.family("osc-palette-index", medium, 256 * 4, |i| {
        let spec = if i % 2 == 0 {
            ColorSpec::Rgb([HexComp { digits: 4, value: 0xcccc }, HexComp { digits: 4, value: 0x2424 }, HexComp { digits: 4, value: 0x1d1d }], false)
        } else {
            ColorSpec::Hash([0xeb, 0xdb, 0xb2], false)
        };
        Some(one("palette", print_osc_color(ColorName::Palette((i / 4) as usize), &spec, i / 2 % 2 == 0)))
    });
    // (d) #rrggbb: every byte in every position, plus lattice^3 x names x terminators x case
    st.family("osc-hash-sweep", sweep, 256 * 3, |i| {
        let mut c = [0x12u8, 0xab, 0xef];
        c[(i % 3) as usize] = (i / 3) as u8;
        Some(one("hash", print_osc_color(ColorName::Background, &ColorSpec::Hash(c, false), i % 2 == 0)))
    });
    const HASH6: [u8; 6] = [0x00, 0x01, 0x7f, 0x80, 0xcc, 0xff];
    st.family("osc-hash-lattice", medium, 216 * 4 * 2 * 2, |i| {
        let c = [HASH6[(i % 6) as usize], HASH6[(i / 6 % 6) as usize], HASH6[(i / 36 % 6) as usize]];
        let j = i / 216;
        Some(one("hash", print_osc_color(names[(j % 4) as usize], &ColorSpec::Hash(c, j / 4 % 2 == 1), j / 8 == 1)))
    });

    // --- XTGETTCAP: 0..=3 distinct capabilities, valid / invalid, hex case ---------------------------
    let caps: [(&str, &str); 4] = [("TN", "xterm-kitty"), ("Co", "256"), ("bel", "^G"), ("smcup", "\x1b[?1049h")];
    let mut selections: Vec<Vec<(&str, &str)>> = vec![vec![]];
    for a in 0..4 {
        selections.push(vec![caps[a]]);
        for b in 0..4 {
            if b != a {
                selections.push(vec![caps[a], caps[b]]);
                for c in 0..4 {
                    if c != a && c != b {
                        selections.push(vec![caps[a], caps[b], caps[c]]);
                    }
                }
            }
        }
    }
    st.family("termcap", small, selections.len() as u64 * 4, |i| {
        let sel = &selections[(i / 4) as usize];
        let ok = i % 2 == 0;
        Some(one(if ok { "valid" } else { "invalid" }, print_xtgettcap(ok, sel, i / 2 % 2 == 1)))
    });

    // --- kitty keyboard -----------------------------------------------------------------------------
    // every Unicode scalar value (and every functional key the table names) x {no mods, 1, 2, 5, 8, 256}
    const KMODS: [Option<u32>; 6] = [None, Some(1), Some(2), Some(5), Some(8), Some(256)];
    st.family("kitty-key-all-codes", sweep, 0x110000 * 6, |i| {
        let code = (i / 6) as u32;
        if code == 0 {
            return None;
        }
        let c = print_kitty_key(code, None, None, KMODS[(i % 6) as usize])?;
        Some(one(if (57344..=63743).contains(&code) { "functional" } else if matches!(code, 9 | 13 | 27 | 127) { "named" } else { "char" }, c))
    });
    // every modifier parameter 1..=256 x representative codes
    const KCODES: [u32; 13] = [97, 65, 32, 48, 27, 13, 9, 127, 233, 0x20ac, 0x1f431, 57376, 57398];
    st.family("kitty-key-all-mods", medium, 256 * 13, |i| {
        Some(one("mods", print_kitty_key(KCODES[(i % 13) as usize], None, None, Some((i / 13) as u32 + 1)).unwrap()))
    });
    // alternate key forms (the library asks for "report alternate keys")
    const KALT: [(u32, Option<u32>, Option<u32>); 6] = [
        (97, Some(65), None),
        (97, None, Some(97)),
        (1089, Some(1057), Some(99)),
        (1089, None, Some(99)),
        (59, Some(58), None),
        (57376, None, Some(57376)),
    ];
    st.family("kitty-key-alternates", small, 6 * 6, |i| {
        let (code, sh, base) = KALT[(i % 6) as usize];
        Some(one("alternate", print_kitty_key(code, sh, base, KMODS[(i / 6) as usize]).unwrap()))
    });
    // CSI ? flags u: all 5-bit flag sets
    st.family("kitty-level", small, 32, |i| Some(one("level", print_kitty_level(i as usize))));

    // --- kitty image responses ----------------------------------------------------------------------
    const IDS: [u64; 8] = [1, 2, 9, 10, 255, 256, 65535, 4294967295];
    const PLACEMENTS: [Option<u64>; 5] = [None, Some(1), Some(11), Some(65535), Some(4294967295)];
    const EXTRA: [Option<&str>; 2] = [None, Some("I=13")];
    const MESSAGES: [&str; 6] =
        ["OK", "ENOENT:no such image", "EINVAL:bad;thing", "EBADF: \u{e9}", "E", "OK but not quite"];
    st.family("kitty-image", medium, 8 * 5 * 2 * 6, |i| {
        Some(one(
            "response",
            print_kitty_image(IDS[(i % 8) as usize], PLACEMENTS[(i / 8 % 5) as usize], EXTRA[(i / 40 % 2) as usize], MESSAGES[(i / 80) as usize]),
        ))
    });

    // --- bracketed paste: all payloads of length <= 3 over the alphabet ----------------------------------
    let alpha = paste_alphabet();
    let na = alpha.len() as u64;
    st.family("paste", medium, 1 + na + na * na + na * na * na, |i| {
        let mut text = String::new();
        let (len, mut k) = if i == 0 {
            (0, 0)
        } else if i < 1 + na {
            (1, i - 1)
        } else if i < 1 + na + na * na {
            (2, i - 1 - na)
        } else {
            (3, i - 1 - na - na * na)
        };
        for _ in 0..len {
            text.push_str(alpha[(k % na) as usize]);
            k /= na;
        }
        Some(one("paste", print_paste(&text)))
    });

    // --- long payloads: one sequence of up to 1.1 MB, read whole and in reads of 4 KiB / 64 KiB / ~1 MB ------
    {
        let mut cases = vec![];
        for what in ["paste", "kitty-image"] {
            for len in LONG_LENS {
                for fill in [0u64, 1] {
                    for chunk in LONG_CHUNKS {
                        cases.push((what, len, fill, chunk));
                    }
                }
            }
        }
        let bad: Vec<_> = cases
            .par_iter()
            .filter_map(|(what, len, fill, chunk)| eval_long(what, *len, *fill, *chunk).map(|o| (*what, *len, *fill, *chunk, o)))
            .collect();
        for (what, len, fill, chunk, o) in bad {
            st.viol.add(
                format!("long-payload/{what}:{}", o.kind),
                format!("[long-payload] {what} with a payload of {len} bytes ({}) read in chunks of {chunk} (0 = one read): {}", if fill == 0 { "ASCII" } else { "two-byte characters" }, o.detail),
                json!({"family": "long-payload", "what": what, "len": len, "fill": fill, "chunk": chunk}),
            );
        }
        st.families.lock().unwrap().insert(
            "long-payload",
            FamilyStat { cases: (cases.len() / LONG_CHUNKS.len()) as u64, decodes: cases.len() as u64, skipped: 0, max_cuts: 0, example: json!({"what": "paste", "len": 1_048_577, "chunk": 65_536}) },
        );
    }

    // --- zero-padded parameters: ECMA-48 5.4.1, leading zeros of a numeric parameter are not significant ------
    {
        // not for sequences whose digits are selectors of a fixed table entry rather than values (function keys
        // `CSI 15 ~` / `CSI 1 ; 5 A`, the paste brackets `CSI 200 ~`, the `8;` / `4;` of size reports): no
        // terminal pads those and the library matches them as literals
        let reps: Vec<Token> = tokens()
            .into_iter()
            .filter(|t| t.bytes.starts_with(b"\x1b[") && t.bytes.iter().any(|b| b.is_ascii_digit()) && !["keys", "paste", "size"].contains(&t.family))
            .collect();
        let widths = [2usize, 19, 20, 21, 40];
        let mut cases = vec![];
        for t in &reps {
            for w in widths {
                // pad every run of digits in the sequence to `w` digits
                let mut bytes = vec![];
                let mut i = 0;
                while i < t.bytes.len() {
                    if t.bytes[i].is_ascii_digit() {
                        let j = (i..t.bytes.len()).find(|k| !t.bytes[*k].is_ascii_digit()).unwrap_or(t.bytes.len());
                        let run = &t.bytes[i..j];
                        bytes.extend(std::iter::repeat(b'0').take(w.saturating_sub(run.len())));
                        bytes.extend_from_slice(run);
                        i = j;
                    } else {
                        bytes.push(t.bytes[i]);
                        i += 1;
                    }
                }
                cases.push(Case { sub: t.family, bytes, expect: t.events.clone(), pending: t.prefix as usize });
            }
        }
        st.family_vec("zero-padded", small.min(1), cases);
    }

    // --- SGR and DECRPSS SGR reports ---------------------------------------------------------------------
    let lattice = sgr_lattice();
    st.family("sgr", large, lattice.len() as u64, |i| {
        let (sub, ops) = &lattice[i as usize];
        Some(one(sub, print_sgr(ops)))
    });
    st.family("decrpss", large, lattice.len() as u64 * 2, |i| {
        let (sub, ops) = &lattice[(i / 2) as usize];
        if i % 2 == 0 {
            Some(one(sub, print_decrpss_sgr(ops)))
        } else {
            // xterm starts its report with `0;`
            let mut with0 = vec![SgrOp::Reset];
            with0.extend(ops.iter().copied());
            Some(one(sub, print_decrpss_sgr(&with0)))
        }
    });

    // --- plain text: every scalar value the decoder treats as printable ------------------------------------
    st.family("text", sweep, 0x110000, |i| {
        let c = scalar_from_index(i)?;
        if (c as u32) < 0x20 || c as u32 == 0x7f {
            return None; // C0 controls and DEL are keys of the table, not text
        }
        Some(one(if c.is_ascii() { "ascii" } else { "multibyte" }, print_text(c)))
    });
    // multi-byte characters split at every byte boundary
    const MB: [char; 8] = ['\u{80}', '\u{e9}', '\u{7ff}', '\u{800}', '\u{20ac}', '\u{ffff}', '\u{10000}', '\u{10ffff}'];
    st.family("text-split", small, 8, |i| Some(one("multibyte", print_text(MB[i as usize]))));

    // --- sequences --------------------------------------------------------------------------------------------
    let toks = tokens();
    let nt = toks.len();
    let depth = if thorough { 3 } else { 2 };
    let seq_count = std::sync::atomic::AtomicU64::new(0);
    let seq_decodes = std::sync::atomic::AtomicU64::new(0);
    let seq_skipped = std::sync::atomic::AtomicU64::new(0);
    let mut capped = false;
    for k in 2..=depth {
        let total = (nt as u64).pow(k as u32);
        let over = std::sync::atomic::AtomicBool::new(false);
        (0..total).into_par_iter().for_each(|i| {
            if over.load(std::sync::atomic::Ordering::Relaxed) {
                return;
            }
            if i % 4096 == 0 && st.ctx.over_cap() {
                over.store(true, std::sync::atomic::Ordering::Relaxed);
                return;
            }
            let mut idx = i;
            let mut seq: Vec<&Token> = Vec::with_capacity(k);
            for _ in 0..k {
                seq.push(&toks[(idx % nt as u64) as usize]);
                idx /= nt as u64;
            }
            if !sequence_allowed(&seq) {
                seq_skipped.fetch_add(1, std::sync::atomic::Ordering::Relaxed);
                return;
            }
            let mut bytes = Vec::new();
            let mut expect = Vec::new();
            let mut owner: Vec<usize> = Vec::new();
            for (ti, t) in seq.iter().enumerate() {
                bytes.extend_from_slice(&t.bytes);
                for e in &t.events {
                    expect.push(e.clone());
                    owner.push(ti);
                }
            }
            let pending = if seq[k - 1].prefix { 1 } else { 0 };
            let mut n = 0u64;
            for_each_cuts(bytes.len(), 2, |cuts| {
                n += 1;
                if let Some(o) = eval(&bytes, cuts, &expect, pending) {
                    let names: Vec<&str> = seq.iter().map(|t| t.name.as_str()).collect();
                    // attribute to the token whose event is the first wrong one (else the last token)
                    // (a panic cannot be attributed: one key for all sequences)
                    let culprit = if o.kind.starts_with("panic") {
                        "any"
                    } else {
                        o.at.and_then(|a| owner.get(a)).map_or(seq[k - 1].family, |ti| seq[*ti].family)
                    };
                    st.viol.add(
                        format!("sequence/{}:{}", culprit, o.kind),
                        format!("[sequence] {:?} read as {:?}: {}", names, cuts, o.detail),
                        witness("sequence", &names.join(" | "), &bytes, cuts, &expect, pending),
                    );
                }
            });
            seq_count.fetch_add(1, std::sync::atomic::Ordering::Relaxed);
            seq_decodes.fetch_add(n, std::sync::atomic::Ordering::Relaxed);
        });
        if over.load(std::sync::atomic::Ordering::Relaxed) {
            capped = true;
        }
    }

    // --- report -------------------------------------------------------------------------------------------------
    let fam = st.families.into_inner().unwrap();
    let mut evaluations = 0u64;
    let mut lattice_cases = 0u64;
    let mut fam_json = serde_json::Map::new();
    for (name, s) in &fam {
        evaluations += s.decodes;
        lattice_cases += s.cases;
        fam_json.insert(
            name.to_string(),
            json!({"cases": s.cases, "decodes": s.decodes, "outside_property": s.skipped, "max_cuts": s.max_cuts, "example": s.example}),
        );
    }
    let mut inh = st.in_hashes.into_inner().unwrap();
    Local::compact(&mut inh);
    let mut evh = st.ev_hashes.into_inner().unwrap();
    Local::compact(&mut evh);
    let seqs = seq_count.load(std::sync::atomic::Ordering::Relaxed);
    let seqd = seq_decodes.load(std::sync::atomic::Ordering::Relaxed);
    evaluations += seqd;
    let samples: Vec<Value> = fam
        .iter()
        .filter(|(n, _)| ["keys", "mouse", "osc-rgb-lattice", "kitty-key-all-mods", "decrpss", "sgr", "termcap", "paste"].contains(*n))
        .map(|(n, s)| json!({"family": n, "case": s.example}))
        .collect();

    let mut r = Report::new("exploration");
    r.set("evaluations", evaluations)
        .set("distinct_nontrivial", inh.len() as u64 + seqs)
        .set(
            "rule",
            "a case = one well-formed byte string produced by an independent protocol printer for an intended event list; \
             lattice cases are counted as distinct byte strings (hash set over all families), sequence cases as distinct token \
             tuples; every case is non-trivial in that the expected events are computed from the intended values, never from \
             the decoder; evaluations = decodes on the real TTYEventDecoder = cases x read partitions",
        )
        .set("samples", samples)
        .set("exhaustive", !capped)
        .set("capped", capped)
        .set("families", Value::Object(fam_json))
        .set("lattice_cases", lattice_cases)
        .set("distinct_lattice_inputs", inh.len() as u64)
        .set("distinct_intended_events", evh.len() as u64)
        .set("sequence_tokens", nt as u64)
        .set("sequence_depth", depth as u64)
        .set("sequences", seqs)
        .set("sequences_outside_property", seq_skipped.load(std::sync::atomic::Ordering::Relaxed))
        .set("sequence_decodes", seqd)
        .set("sequence_max_cuts", 2)
        .set("raw_violations", st.viol.raw_count());
    r.assume("the library's legacy key table, its SGR-mouse button names and the RGB values of the 16 basic colours are specification (transcribed once into model/keytable.rs); colours 16..=255 follow the xterm formula");
    r.assume("SGR alphabet = parameters the library claims (0, 1, 3, 23, 4, 4:0..4:5, 24, 5, 25, 9, 29, 30-37, 40-47, 90-97, 100-107, 38/48/58 in ':' and ';' forms); 21/22, 7/27, 39/49/59 are not exercised");
    r.assume("12- and 16-bit rgb: components may be read as their most significant byte or as the nearest 8-bit value (identical for the byte-replicated values terminals send)");
    r.assume("keys whose bytes are a proper prefix of longer sequences (ESC, ESC [, ESC O, ESC P, ESC ], ESC _) are only placed before a sequence starting with ESC or at the end, and are flushed by a trailing ESC");
    r.assume("CSI 1;nR with n in 2..=8 is the modified F3 key, not a cursor report (statement)");
    r.assume("kitty functional key codes without an entry in the naming table (private use area except F13..F35) and code 0 are outside the property");
    r.violations = st.viol.into_vec();
    Ok(r)
}

pub fn replay(w: &Value) -> Result<(bool, String), String> {
    if w["family"] == json!("long-payload") {
        let what = w["what"].as_str().ok_or("what")?;
        let len = w["len"].as_u64().ok_or("len")? as usize;
        let fill = w["fill"].as_u64().unwrap_or(0);
        let chunk = w["chunk"].as_u64().unwrap_or(0) as usize;
        let head = format!("{what} with a payload of {len} bytes read in chunks of {chunk} (0 = one read); intended: one event carrying exactly that payload");
        return Ok(match eval_long(what, len, fill, chunk) {
            Some(o) => (true, format!("{head}\nobserved: [{}] {}", o.kind, o.detail)),
            None => (false, format!("{head}\nobserved: the decoder returned exactly the intended event")),
        });
    }
    let bytes = unhex(w["bytes"].as_str().ok_or("bytes")?);
    let cuts: Vec<usize> = w["cuts"].as_array().ok_or("cuts")?.iter().map(|v| v.as_u64().unwrap_or(0) as usize).collect();
    let expect: Vec<Ev> = serde_json::from_value(w["expect"].clone()).map_err(|e| format!("expect: {e}"))?;
    let pending = w["pending"].as_u64().unwrap_or(0) as usize;
    if cuts.windows(2).any(|c| c[0] >= c[1]) || cuts.iter().any(|c| *c == 0 || *c >= bytes.len()) {
        return Err("cuts must be strictly increasing positions inside the input".into());
    }
    let head = format!(
        "input {} ({} bytes) read as cuts {:?} then a lone ESC\nintended: {}",
        esc(&bytes),
        bytes.len(),
        cuts,
        show(&expect)
    );
    Ok(match eval(&bytes, &cuts, &expect, pending) {
        Some(o) => (true, format!("{head}\nobserved: [{}] {}", o.kind, o.detail)),
        None => (false, format!("{head}\nobserved: the decoder returned exactly the intended events")),
    })
}
