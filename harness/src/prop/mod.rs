//! One module per property: alphabet, bound, oracle.
use crate::engine::report::{Ctx, Report};
use crate::engine::workers::WorkerCtx;
use serde_json::Value;

pub struct Entry {
    pub id: &'static str,
    pub run: fn(&Ctx) -> Result<Report, String>,
    /// re-execute one witness without the explorer: (violates, detail)
    pub replay: fn(&Value) -> Result<(bool, String), String>,
    pub worker: Option<fn(&Ctx, WorkerCtx, &[String])>,
}

pub mod c08;

pub fn lookup(id: &str) -> Option<Entry> {
    Some(match id {
        "C08" => Entry { id: "C08", run: c08::run, replay: c08::replay, worker: None },
        _ => return None,
    })
}
