//! One module per property: alphabet, bound, oracle.
use crate::engine::report::{Ctx, Report};
use crate::engine::workers::WorkerCtx;
use serde_json::Value;

pub struct Entry {
    pub id: &'static str,
    pub run: fn(&Ctx) -> Result<Report, String>,
    /// re-execute one witness without the explorer: (violates, detail)
    pub replay: fn(&Value) -> Result<(bool, String), String>,
    pub worker: Option<fn(&Ctx, WorkerCtx, &[String])>,
}

pub mod decoder_common;
pub mod ioqueue;
pub mod term_common;
pub mod c01;
pub mod c02;
pub mod c03;
pub mod c04;
pub mod c05;
pub mod c06;
pub mod c07;
pub mod c08;
pub mod c09;
pub mod c10;
pub mod c11;
pub mod c12;
pub mod c13;
pub mod c14;
pub mod c15;
pub mod c16;
pub mod c17;
pub mod c18;
pub mod c19;
pub mod c20;

/// Properties whose module exports `pub fn worker(&Ctx, WorkerCtx, &[String])`.
fn worker_of(id: &str) -> Option<fn(&Ctx, WorkerCtx, &[String])> {
    match id {
        "C02" => Some(c02::worker),
        "C03" => Some(c03::worker),
        "C16" => Some(c16::worker),
        "C17" => Some(c17::worker),
        "C19" => Some(c19::worker),
        _ => None,
    }
}

pub fn lookup(id: &str) -> Option<Entry> {
    let (id, run, replay): (&'static str, fn(&Ctx) -> Result<Report, String>, fn(&Value) -> Result<(bool, String), String>) = match id {
        "C01" => ("C01", c01::run, c01::replay),
        "C02" => ("C02", c02::run, c02::replay),
        "C03" => ("C03", c03::run, c03::replay),
        "C04" => ("C04", c04::run, c04::replay),
        "C05" => ("C05", c05::run, c05::replay),
        "C06" => ("C06", c06::run, c06::replay),
        "C07" => ("C07", c07::run, c07::replay),
        "C08" => ("C08", c08::run, c08::replay),
        "C09" => ("C09", c09::run, c09::replay),
        "C10" => ("C10", c10::run, c10::replay),
        "C11" => ("C11", c11::run, c11::replay),
        "C12" => ("C12", c12::run, c12::replay),
        "C13" => ("C13", c13::run, c13::replay),
        "C14" => ("C14", c14::run, c14::replay),
        "C15" => ("C15", c15::run, c15::replay),
        "C16" => ("C16", c16::run, c16::replay),
        "C17" => ("C17", c17::run, c17::replay),
        "C18" => ("C18", c18::run, c18::replay),
        "C19" => ("C19", c19::run, c19::replay),
        "C20" => ("C20", c20::run, c20::replay),
        _ => return None,
    };
    Some(Entry { id, run, replay, worker: worker_of(id) })
}
