//! C06 -- the library reads back its own SGR output and applies it with SGR semantics.
//!
//! (a) Round trip, complete over lattices: every `FaceModify` / `Face` / character is encoded by
//!     `TTYEncoder` in true colour and decoded again by `TTYCommandDecoder` under every
//!     partition of the bytes with at most two cuts; the decoded commands must be the same
//!     face change (for `Face`: the equivalent reset-plus-sets record) and the same characters.
//! (b) Explicit-state BFS over SGR histories written through `CellWrite::tty_writer()`:
//!     state = current face of the sink, alphabet = SGR sequences built from the codes the
//!     library's interpreter claims, each followed by a text character whose cell is observed.
//!     Every history is executed under many partitions of its bytes into `write()` calls and
//!     compared with the reference SGR machine of `model::sgr`.
use crate::engine::report::{Ctx, Report, Samples, Tier, Violations};
use crate::engine::util::{esc, hash128};
use crate::engine::{bfs, catch};
use crate::model::sgr::{self, Colour, Param, Rendition, Underline};
use rayon::prelude::*;
use serde::{Deserialize, Serialize};
use serde_json::{json, Value};
use std::io::Write;
use std::sync::atomic::{AtomicU64, Ordering};
use surf_n_term::decoder::{Decoder, TTYCommandDecoder};
use surf_n_term::encoder::{ColorDepth, Encoder, TTYEncoder};
use surf_n_term::render::CellKind;
use surf_n_term::{
    Cell, CellWrite, Face, FaceAttrs, FaceModify, TerminalCaps, TerminalCommand, UnderlineStyle, RGBA,
};

type Rgb = [u8; 3];

fn rgba(c: Rgb) -> RGBA {
    RGBA::new(c[0], c[1], c[2], 255)
}

fn ul_style(n: u8) -> UnderlineStyle {
    match n {
        1 => UnderlineStyle::Straight,
        2 => UnderlineStyle::Double,
        3 => UnderlineStyle::Curly,
        4 => UnderlineStyle::Dotted,
        5 => UnderlineStyle::Dashed,
        _ => UnderlineStyle::None,
    }
}

/// flags: bit0 bold, bit1 italic, bit2 blink, bit3 reverse, bit4 strike
fn attrs(flags: u8, ul: u8) -> FaceAttrs {
    let mut a: FaceAttrs = ul_style(ul).into();
    for (bit, f) in [
        (1, FaceAttrs::BOLD),
        (2, FaceAttrs::ITALIC),
        (4, FaceAttrs::BLINK),
        (8, FaceAttrs::REVERSE),
        (16, FaceAttrs::STRIKE),
    ] {
        if flags & bit != 0 {
            a = a.insert(f);
        }
    }
    a
}

/// Readable rendering (the Debug form of RGBA paints itself with escape sequences).
fn show_colour(c: Option<RGBA>) -> String {
    c.map(|c| c.to_string()).unwrap_or_else(|| "-".into())
}

fn show_cmd(c: &TerminalCommand) -> String {
    match c {
        TerminalCommand::FaceModify(m) => format!(
            "FaceModify{{reset:{} fg:{} bg:{} underline:{:?} underline_color:{} bold:{:?} italic:{:?} blink:{:?} strike:{:?}}}",
            m.reset,
            show_colour(m.fg),
            show_colour(m.bg),
            m.underline,
            show_colour(m.underline_color),
            m.bold,
            m.italic,
            m.blink,
            m.strike
        ),
        TerminalCommand::Face(f) => format!("Face({f})"),
        other => format!("{:?}", other),
    }
}

fn show_cmds(cs: &[TerminalCommand]) -> String {
    format!("[{}]", cs.iter().map(show_cmd).collect::<Vec<_>>().join(", "))
}

fn show_faces(fs: &[Face]) -> String {
    format!("[{}]", fs.iter().map(|f| format!("Face({f})")).collect::<Vec<_>>().join(", "))
}

// ---------------------------------------------------------------------------------------
// (a) round trip
// ---------------------------------------------------------------------------------------

#[derive(Debug, Clone, Copy, PartialEq, Default, Serialize, Deserialize)]
struct ModSpec {
    reset: bool,
    #[serde(default, skip_serializing_if = "Option::is_none")]
    fg: Option<Rgb>,
    #[serde(default, skip_serializing_if = "Option::is_none")]
    bg: Option<Rgb>,
    #[serde(default, skip_serializing_if = "Option::is_none")]
    ul: Option<u8>,
    #[serde(default, skip_serializing_if = "Option::is_none")]
    ulc: Option<Rgb>,
    #[serde(default, skip_serializing_if = "Option::is_none")]
    bold: Option<bool>,
    #[serde(default, skip_serializing_if = "Option::is_none")]
    italic: Option<bool>,
    #[serde(default, skip_serializing_if = "Option::is_none")]
    blink: Option<bool>,
    #[serde(default, skip_serializing_if = "Option::is_none")]
    strike: Option<bool>,
}

impl ModSpec {
    fn modify(&self) -> FaceModify {
        FaceModify {
            reset: self.reset,
            fg: self.fg.map(rgba),
            bg: self.bg.map(rgba),
            underline: self.ul.map(ul_style),
            underline_color: self.ulc.map(rgba),
            bold: self.bold,
            italic: self.italic,
            blink: self.blink,
            strike: self.strike,
        }
    }
}

#[derive(Debug, Clone, Copy, PartialEq, Default, Serialize, Deserialize)]
struct FaceSpec {
    #[serde(default, skip_serializing_if = "Option::is_none")]
    fg: Option<Rgb>,
    #[serde(default, skip_serializing_if = "Option::is_none")]
    bg: Option<Rgb>,
    /// bit3 (reverse) has no counterpart in a modification record: everything else must still
    /// be read back
    flags: u8,
    ul: u8,
}

impl FaceSpec {
    fn face(&self) -> Face {
        Face::new(self.fg.map(rgba), self.bg.map(rgba), attrs(self.flags, self.ul))
    }
    /// "set this face" as a modification: reset, then every colour and attribute it has
    fn equivalent(&self) -> FaceModify {
        let on = |bit: u8| (self.flags & bit != 0).then_some(true);
        FaceModify {
            reset: true,
            fg: self.fg.map(rgba),
            bg: self.bg.map(rgba),
            underline: (self.ul != 0).then(|| ul_style(self.ul)),
            underline_color: None,
            bold: on(1),
            italic: on(2),
            blink: on(4),
            strike: on(16),
        }
    }
}

#[derive(Debug, Clone, PartialEq, Serialize, Deserialize)]
enum Item {
    Modify(ModSpec),
    Face(FaceSpec),
    /// a character alone
    Char(u32),
    /// the character, a bold-on modification, the character again
    CharCtx(u32),
    /// a modification between two characters
    ModifyCtx(ModSpec),
}

impl Item {
    fn name(&self) -> &'static str {
        match self {
            Item::Modify(_) | Item::ModifyCtx(_) => "FaceModify",
            Item::Face(_) => "Face",
            Item::Char(_) | Item::CharCtx(_) => "Char",
        }
    }
    fn commands(&self) -> Vec<TerminalCommand> {
        let bold = FaceModify { bold: Some(true), ..FaceModify::default() };
        match self {
            Item::Modify(m) => vec![TerminalCommand::FaceModify(m.modify())],
            Item::Face(f) => vec![TerminalCommand::Face(f.face())],
            Item::Char(c) => vec![TerminalCommand::Char(char::from_u32(*c).unwrap_or('?'))],
            Item::CharCtx(c) => {
                let c = char::from_u32(*c).unwrap_or('?');
                vec![TerminalCommand::Char(c), TerminalCommand::FaceModify(bold), TerminalCommand::Char(c)]
            }
            Item::ModifyCtx(m) => vec![
                TerminalCommand::Char('a'),
                TerminalCommand::FaceModify(m.modify()),
                TerminalCommand::Char('\u{e9}'),
            ],
        }
    }
    /// what the decoder must give back (the statement: the same face change, the same characters)
    fn expected(&self) -> Vec<TerminalCommand> {
        let nothing = FaceModify::default();
        self.commands()
            .into_iter()
            .filter_map(|c| match c {
                TerminalCommand::Face(_) => match self {
                    Item::Face(f) => Some(TerminalCommand::FaceModify(f.equivalent())),
                    _ => None,
                },
                // a modification that changes nothing is written as nothing
                TerminalCommand::FaceModify(m) if m == nothing => None,
                other => Some(other),
            })
            .collect()
    }
}

/// a sink that accepts `left` bytes and then fails
struct FailAfter {
    left: usize,
}

impl Write for FailAfter {
    fn write(&mut self, buf: &[u8]) -> std::io::Result<usize> {
        if self.left == 0 {
            return Err(std::io::Error::new(std::io::ErrorKind::WouldBlock, "sink full"));
        }
        let n = buf.len().min(self.left);
        self.left -= n;
        Ok(n)
    }
    fn flush(&mut self) -> std::io::Result<()> {
        Ok(())
    }
}

/// Two face changes on ONE encoder: the first written into a sink that takes k bytes and then fails (None: it is
/// written completely), the second into a working sink. What the second wrote must be read back as the second face
/// change - an encoder is a long-lived object and a failed write is an ordinary event for it.
fn encoder_history_case(a: &Item, b: &Item, k: Option<usize>) -> Result<(), (String, String)> {
    let r = catch(|| {
        let mut enc = true_colour();
        let mut sink = FailAfter { left: k.unwrap_or(usize::MAX) };
        for cmd in a.commands() {
            let _ = enc.encode(&mut sink, cmd);
        }
        let mut out = Vec::new();
        for cmd in b.commands() {
            enc.encode(&mut out, cmd).map_err(|e| format!("encode failed: {e:?}"))?;
        }
        Ok::<_, String>(out)
    });
    let what = match k {
        None => "written completely".to_string(),
        Some(k) => format!("written into a sink that failed after {k} bytes"),
    };
    match r {
        Err(p) => Err((format!("encoder-history:{}", p.key()), format!("encode panicked: {}", p.message))),
        Ok(Err(e)) => Err(("encoder-history:encode-error".into(), e)),
        Ok(Ok(out)) => match decode_parts(&out, &[out.len()]) {
            Err(e) => Err(("encoder-history:decode".into(), e)),
            Ok(got) => {
                let want = b.expected();
                if got != want {
                    Err((
                        format!("encoder-history:{}", diff_kind(&want, &got)),
                        format!("after {} {}, the same encoder wrote {:?} for {}: read back as {}, expected {}", show_cmds(&a.commands()), what, esc(&out), show_cmds(&b.commands()), show_cmds(&got), show_cmds(&want)),
                    ))
                } else {
                    Ok(())
                }
            }
        },
    }
}

fn encoder_history(viol: &Violations) -> u64 {
    let m = ModSpec::default();
    let red = Some([255u8, 0u8, 0u8]);
    let items: Vec<Item> = vec![
        Item::Modify(ModSpec { fg: red, ul: Some(3), ..m }),
        Item::Modify(ModSpec { bold: Some(true), ..m }),
        Item::Modify(m),
        Item::Modify(ModSpec { reset: true, ..m }),
        Item::Modify(ModSpec { bg: Some([1, 2, 3]), italic: Some(false), ulc: Some([9, 8, 7]), ..m }),
        Item::Face(FaceSpec::default()),
        Item::Face(FaceSpec { fg: Some([1, 128, 255]), bg: Some([0, 0, 0]), flags: 23, ul: 3 }),
    ];
    let mut n = 0u64;
    for a in &items {
        let full = match encode_all(a.commands()) {
            Ok(b) => b.len(),
            Err(_) => continue,
        };
        for b in &items {
            for k in (0..full).map(Some).chain(std::iter::once(None)) {
                n += 1;
                if let Err((key, detail)) = encoder_history_case(a, b, k) {
                    viol.add(key, detail, json!({"kind": "encoder-history", "first": a, "second": b, "sink_accepts": k}));
                }
            }
        }
    }
    n
}

fn true_colour() -> TTYEncoder {
    TTYEncoder::new(TerminalCaps { depth: ColorDepth::TrueColor, glyphs: false, kitty_keyboard: false })
}

fn encode_all(cmds: Vec<TerminalCommand>) -> Result<Vec<u8>, String> {
    let mut enc = true_colour();
    let mut out = Vec::with_capacity(96);
    for cmd in cmds {
        match catch(|| enc.encode(&mut out, cmd)) {
            Err(p) => return Err(format!("encode panicked: {} ({}:{})", p.message, p.file, p.line)),
            Ok(Err(e)) => return Err(format!("encode failed: {:?}", e)),
            Ok(Ok(())) => {}
        }
    }
    Ok(out)
}

/// Feed `bytes` to a fresh decoder, one `decode_into` per part.
fn decode_parts(bytes: &[u8], parts: &[usize]) -> Result<Vec<TerminalCommand>, String> {
    let r = catch(|| {
        let mut dec = TTYCommandDecoder::new();
        let mut out = Vec::new();
        let mut off = 0;
        for p in parts {
            let mut cur = std::io::Cursor::new(&bytes[off..off + p]);
            dec.decode_into(&mut cur, &mut out).map_err(|e| format!("decoder error: {:?}", e))?;
            off += p;
        }
        // nothing may be left behind
        let mut cur = std::io::Cursor::new(&b""[..]);
        dec.decode_into(&mut cur, &mut out).map_err(|e| format!("decoder error: {:?}", e))?;
        Ok::<_, String>(out)
    });
    match r {
        Err(p) => Err(format!("decoder panicked: {} ({}:{})", p.message, p.file, p.line)),
        Ok(r) => r,
    }
}

/// Call `f` with every partition of `n` bytes that has at most `max_cuts` cuts; stops early
/// when `f` returns false. Returns the number of partitions visited.
fn for_partitions(n: usize, max_cuts: usize, mut f: impl FnMut(&[usize]) -> bool) -> u64 {
    let mut count = 0;
    if n == 0 {
        f(&[]);
        return 1;
    }
    count += 1;
    if !f(&[n]) {
        return count;
    }
    if max_cuts >= 1 {
        for a in 1..n {
            count += 1;
            if !f(&[a, n - a]) {
                return count;
            }
        }
    }
    if max_cuts >= 2 {
        for a in 1..n {
            for b in a + 1..n {
                count += 1;
                if !f(&[a, b - a, n - b]) {
                    return count;
                }
            }
        }
    }
    count
}

fn diff_kind(want: &[TerminalCommand], got: &[TerminalCommand]) -> String {
    if want.len() != got.len() {
        return format!("{}-commands-for-{}", got.len(), want.len());
    }
    for (w, g) in want.iter().zip(got) {
        match (w, g) {
            (TerminalCommand::FaceModify(a), TerminalCommand::FaceModify(b)) if a != b => {
                for (name, differs) in [
                    ("reset", a.reset != b.reset),
                    ("fg", a.fg != b.fg),
                    ("bg", a.bg != b.bg),
                    ("underline", a.underline != b.underline),
                    ("underline-colour", a.underline_color != b.underline_color),
                    ("bold", a.bold != b.bold),
                    ("italic", a.italic != b.italic),
                    ("blink", a.blink != b.blink),
                    ("strike", a.strike != b.strike),
                ] {
                    if differs {
                        return name.to_string();
                    }
                }
            }
            (TerminalCommand::Char(a), TerminalCommand::Char(b)) if a != b => return "char".into(),
            (a, b) if a != b => return "command-kind".into(),
            _ => {}
        }
    }
    "same".into()
}

/// One round trip under one partition. Err((kind, detail)).
fn roundtrip(item: &Item, bytes: &[u8], parts: &[usize]) -> Result<(), (String, String)> {
    let want = item.expected();
    match decode_parts(bytes, parts) {
        Err(e) => Err(("decoder-failure".into(), e)),
        Ok(got) if got == want => Ok(()),
        Ok(got) => Err((
            diff_kind(&want, &got),
            format!("bytes {:?} cut {:?}: decoded {}, written {}", esc(bytes), parts, show_cmds(&got), show_cmds(&want)),
        )),
    }
}

#[derive(Default)]
struct Tally {
    items: u64,
    runs: u64,
}

/// All partitions (<= max_cuts) of one item.
fn roundtrip_item(item: &Item, max_cuts: usize, viol: &Violations, t: &mut Tally) {
    t.items += 1;
    let bytes = match encode_all(item.commands()) {
        Ok(b) => b,
        Err(e) => {
            viol.add(
                format!("roundtrip:{}:encoder-failure", item.name()),
                format!("{:?}: {}", item, e),
                json!({"kind": "roundtrip", "item": item, "parts": []}),
            );
            return;
        }
    };
    t.runs += for_partitions(bytes.len(), max_cuts, |parts| match roundtrip(item, &bytes, parts) {
        Ok(()) => true,
        Err((kind, detail)) => {
            viol.add(
                format!("roundtrip:{}:{}", item.name(), kind),
                format!("{}: {}", show_cmds(&item.commands()), detail),
                json!({"kind": "roundtrip", "item": item, "parts": parts}),
            );
            false
        }
    });
}

const TRI: [Option<bool>; 3] = [None, Some(true), Some(false)];

struct ModSpace {
    cols: Vec<Option<Rgb>>,
}

impl ModSpace {
    fn size(&self) -> u64 {
        let n = self.cols.len() as u64;
        2 * n * n * n * 7 * 81
    }
    fn get(&self, mut i: u64) -> ModSpec {
        let n = self.cols.len() as u64;
        let mut take = |r: u64| {
            let v = i % r;
            i /= r;
            v
        };
        let strike = TRI[take(3) as usize];
        let blink = TRI[take(3) as usize];
        let italic = TRI[take(3) as usize];
        let bold = TRI[take(3) as usize];
        let ul = match take(7) {
            0 => None,
            k => Some(k as u8 - 1),
        };
        let reset = take(2) == 1;
        let ulc = self.cols[take(n) as usize];
        let bg = self.cols[take(n) as usize];
        let fg = self.cols[take(n) as usize];
        ModSpec { reset, fg, bg, ul, ulc, bold, italic, blink, strike }
    }
}

struct FaceSpace {
    cols: Vec<Option<Rgb>>,
}

impl FaceSpace {
    fn size(&self) -> u64 {
        (self.cols.len() * self.cols.len() * 32 * 6) as u64
    }
    fn get(&self, mut i: u64) -> FaceSpec {
        let n = self.cols.len() as u64;
        let ul = (i % 6) as u8;
        i /= 6;
        let flags = (i % 32) as u8;
        i /= 32;
        let bg = self.cols[(i % n) as usize];
        i /= n;
        FaceSpec { fg: self.cols[i as usize], bg, flags, ul }
    }
}

fn cube(vals: &[u8]) -> Vec<Rgb> {
    let mut v = vec![];
    for r in vals {
        for g in vals {
            for b in vals {
                v.push([*r, *g, *b]);
            }
        }
    }
    v
}

fn opt(cols: &[Rgb]) -> Vec<Option<Rgb>> {
    std::iter::once(None).chain(cols.iter().map(|c| Some(*c))).collect()
}

/// Parallel sweep over `0..total`, items made by `get`.
fn sweep_items<G: Fn(u64) -> Item + Sync>(
    ctx: &Ctx,
    total: u64,
    max_cuts: usize,
    get: G,
    viol: &Violations,
    samples: &Samples,
    base: u64,
    items: &AtomicU64,
    runs: &AtomicU64,
) {
    let chunk = 256u64;
    (0..total.div_ceil(chunk)).into_par_iter().for_each(|k| {
        if ctx.over_cap() {
            return;
        }
        let mut t = Tally::default();
        for i in k * chunk..((k + 1) * chunk).min(total) {
            let item = get(i);
            roundtrip_item(&item, max_cuts, viol, &mut t);
            samples.offer(base + i, || {
                json!({"roundtrip": item, "bytes": encode_all(item.commands()).map(|b| esc(&b)).unwrap_or_default()})
            });
        }
        items.fetch_add(t.items, Ordering::Relaxed);
        runs.fetch_add(t.runs, Ordering::Relaxed);
    });
}

// ---------------------------------------------------------------------------------------
// (b) SGR histories through tty_writer
// ---------------------------------------------------------------------------------------

/// A `CellWrite` that records what it is given.
#[derive(Default)]
struct Sink {
    face: Face,
    wraps: bool,
    cells: Vec<Cell>,
    /// out of space once this many cells are held (`put_cell` answers false and ignores the cell) until rewound
    cap: Option<usize>,
}

impl CellWrite for Sink {
    fn face(&self) -> Face {
        self.face
    }
    fn set_face(&mut self, face: Face) -> Face {
        std::mem::replace(&mut self.face, face)
    }
    fn wraps(&self) -> bool {
        self.wraps
    }
    fn set_wraps(&mut self, wraps: bool) -> bool {
        std::mem::replace(&mut self.wraps, wraps)
    }
    fn put_cell(&mut self, cell: Cell) -> bool {
        if matches!(self.cap, Some(c) if self.cells.len() >= c) {
            return false;
        }
        self.cells.push(cell);
        true
    }
}

/// A target that runs out of space and is rewound: the history is written (under `parts`) into a sink that holds
/// `cap` cells, then the caller makes room again (as `TerminalWriter::set_cursor` does for a surface) and writes one
/// more character through the same writer. The cells that fitted and the late cell must have the faces SGR semantics
/// give - the writer has seen every sequence, whether or not the text between them found room.
fn check_history_full_target(hist: &[SgrOp], parts: &[usize], cap: usize, pal: &[RGBA; 16]) -> Result<(), (String, String)> {
    let bytes: Vec<u8> = hist.iter().flat_map(op_bytes).collect();
    let want = model_faces(hist, pal);
    let r = catch(|| {
        let mut w = Sink { cap: Some(cap), ..Sink::default() }.tty_writer();
        let mut off = 0;
        for p in parts {
            w.write_all(&bytes[off..off + p]).map_err(|e| format!("write failed: {e}"))?;
            off += p;
        }
        w.parent().cap = None;
        let mut probe = [0u8; 4];
        w.write_all(TEXT.encode_utf8(&mut probe).as_bytes()).map_err(|e| format!("write failed: {e}"))?;
        let sink = std::mem::take(w.parent());
        Ok::<_, String>(sink.cells)
    });
    let cells = match r {
        Err(p) => return Err(("full-target:panic".into(), format!("writer panicked: {} ({}:{})", p.message, p.file, p.line))),
        Ok(Err(e)) => return Err(("full-target:writer-failure".into(), e)),
        Ok(Ok(c)) => c,
    };
    let show = || format!("bytes {:?} written as {:?} into a target with room for {cap} cell(s), then room is made and one more character is written", esc(&bytes), parts);
    let kept = cap.min(want.len());
    if cells.len() != kept + 1 {
        return Err(("full-target:cell-count".into(), format!("{}: {} cells recorded, expected {}", show(), cells.len(), kept + 1)));
    }
    let final_want = want.last().copied().unwrap_or_default();
    for (i, cell) in cells.iter().enumerate() {
        let w = if i < kept { want[i] } else { final_want };
        if !matches!(cell.kind(), CellKind::Char(c) if *c == TEXT) {
            return Err(("full-target:cell-content".into(), format!("{}: cell {i} is {:?}", show(), cell.kind())));
        }
        if cell.face() != w {
            return Err((
                format!("full-target:face:{}", face_diff(&w, &cell.face())),
                format!("{}: cell {i} has Face({}), SGR semantics give Face({w})", show(), cell.face()),
            ));
        }
    }
    Ok(())
}

/// The SGR tokens of the alphabet: the codes the library's SGR interpreter has an arm for
/// (which includes everything its encoder emits at any depth), minus 21 (see `run`).
const TOKENS: [&str; 25] = [
    "0", "", "1", "22", "3", "23", "4", "4:2", "4:3", "4:5", "24", "5", "25", "9", "29", "31", "42", "91", "102",
    "38;5;196", "48;5;244", "38;2;1;128;255", "48:2::3:4:5", "58;2;7;8;9",
    // italic, written with twenty digits (leading zeros of a parameter are not significant, ECMA-48 5.4.1)
    "00000000000000000003",
];
/// The text written after every sequence (two bytes, so a cut can fall inside it).
const TEXT: char = '\u{e9}';

type SgrOp = Vec<&'static str>;

fn op_bytes(op: &SgrOp) -> Vec<u8> {
    let mut s = String::from("\x1b[");
    s.push_str(&op.join(";"));
    s.push('m');
    s.push(TEXT);
    s.into_bytes()
}

fn op_params(op: &SgrOp) -> Vec<Param> {
    let joined = op.join(";");
    joined
        .split(';')
        .map(|g| g.split(':').map(|v| v.parse::<u64>().ok()).collect())
        .collect()
}

/// Write `bytes` through a fresh `tty_writer()` in the given parts; returns cells and final face.
fn write_parts(bytes: &[u8], parts: &[usize]) -> Result<(Vec<Cell>, Face), String> {
    let r = catch(|| {
        let mut w = Sink::default().tty_writer();
        let mut off = 0;
        for p in parts {
            w.write_all(&bytes[off..off + p]).map_err(|e| format!("write failed: {e}"))?;
            off += p;
        }
        let sink = std::mem::take(w.parent());
        Ok::<_, String>((sink.cells, sink.face))
    });
    match r {
        Err(p) => Err(format!("writer panicked: {} ({}:{})", p.message, p.file, p.line)),
        Ok(r) => r,
    }
}

/// The colours the library itself gives to palette entries 0..=15 through `38;5;n`
/// (no specification fixes them; the history oracle only needs them to be used consistently,
/// which `palette_consistency` checks).
fn palette_probe() -> Result<[RGBA; 16], String> {
    let mut out = [RGBA::new(0, 0, 0, 255); 16];
    for (n, slot) in out.iter_mut().enumerate() {
        let bytes = format!("\x1b[38;5;{n}mx").into_bytes();
        let (cells, _) = write_parts(&bytes, &[bytes.len()])?;
        match cells.first().map(|c| c.face().fg) {
            Some(Some(c)) => *slot = c,
            other => return Err(format!("38;5;{n} gives foreground {:?}", other)),
        }
    }
    Ok(out)
}

/// 3x / 9x / 38;5;n / 38:5:n and 4x / 10x / 48;5;n / 48:5:n all name the same palette entry
/// (the reference maps entry n < 16 to the probed colour, so this is a consistency check).
fn palette_consistency(pal: &[RGBA; 16], viol: &Violations) -> u64 {
    let mut checked = 0;
    for n in 0..16usize {
        let short_fg = if n < 8 { 30 + n } else { 90 + n - 8 };
        let short_bg = short_fg + 10;
        for seq in [
            format!("{short_fg}"),
            format!("38:5:{n}"),
            format!("{short_bg}"),
            format!("48;5;{n}"),
            format!("48:5:{n}"),
        ] {
            checked += 1;
            let token: &'static str = Box::leak(seq.into_boxed_str());
            let hist = [vec![token]];
            let parts = [op_bytes(&hist[0]).len()];
            if let Err((kind, detail)) = check_history(&hist, &parts, pal) {
                viol.add(format!("sgr-history:palette:{kind}"), detail, hist_json(&hist, &parts));
            }
        }
    }
    checked
}

fn colour_face(c: Colour, pal: &[RGBA; 16]) -> Option<RGBA> {
    match c {
        Colour::Default => None,
        Colour::Rgb(r, g, b) => Some(RGBA::new(r, g, b, 255)),
        Colour::Index(n) => Some(match sgr::xterm_rgb(n) {
            Some((r, g, b)) => RGBA::new(r, g, b, 255),
            None => pal[n as usize],
        }),
    }
}

fn rendition_face(r: &Rendition, pal: &[RGBA; 16]) -> Face {
    let ul = match r.underline {
        Underline::None => 0,
        Underline::Single => 1,
        Underline::Double => 2,
        Underline::Curly => 3,
        Underline::Dotted => 4,
        Underline::Dashed => 5,
    };
    let flags = r.bold as u8 | (r.italic as u8) << 1 | (r.blink as u8) << 2 | (r.reverse as u8) << 3 | (r.strike as u8) << 4;
    Face::new(colour_face(r.fg, pal), colour_face(r.bg, pal), attrs(flags, ul))
}

/// Which slot of the face is wrong (for the finding key).
fn face_diff(want: &Face, got: &Face) -> &'static str {
    if want.fg != got.fg {
        return "fg";
    }
    if want.bg != got.bg {
        return "bg";
    }
    if want.attrs.underline() != got.attrs.underline() {
        return "underline";
    }
    for (name, f) in [
        ("bold", FaceAttrs::BOLD),
        ("italic", FaceAttrs::ITALIC),
        ("blink", FaceAttrs::BLINK),
        ("reverse", FaceAttrs::REVERSE),
        ("strike", FaceAttrs::STRIKE),
    ] {
        if want.attrs.contains(f) != got.attrs.contains(f) {
            return name;
        }
    }
    "attribute-bits"
}

/// Reference: the face of the cell written after each sequence of the history.
fn model_faces(hist: &[SgrOp], pal: &[RGBA; 16]) -> Vec<Face> {
    let mut r = Rendition::default();
    hist.iter()
        .map(|op| {
            sgr::apply(&mut r, &op_params(op));
            rendition_face(&r, pal)
        })
        .collect()
}

/// Execute one history under one partition and compare with the reference.
fn check_history(hist: &[SgrOp], parts: &[usize], pal: &[RGBA; 16]) -> Result<Face, (String, String)> {
    let bytes: Vec<u8> = hist.iter().flat_map(op_bytes).collect();
    let want = model_faces(hist, pal);
    let (cells, last) = write_parts(&bytes, parts).map_err(|e| ("writer-failure".to_string(), e))?;
    let show = || format!("bytes {:?} written as {:?}", esc(&bytes), parts);
    if cells.len() != want.len() {
        return Err(("cell-count".into(), format!("{}: {} cells, {} characters were written", show(), cells.len(), want.len())));
    }
    for (i, (cell, w)) in cells.iter().zip(&want).enumerate() {
        if !matches!(cell.kind(), CellKind::Char(c) if *c == TEXT) {
            return Err(("cell-content".into(), format!("{}: cell {i} is {:?}", show(), cell.kind())));
        }
        let g = cell.face();
        if g != *w {
            return Err((
                format!("face:{}", face_diff(w, &g)),
                format!("{}: cell {i} has Face({g}), SGR semantics give Face({w})", show()),
            ));
        }
    }
    let final_want = want.last().copied().unwrap_or_default();
    if last != final_want {
        return Err(("final-face".into(), format!("{}: sink face Face({last}), want Face({final_want})", show())));
    }
    Ok(last)
}

fn hist_json(hist: &[SgrOp], parts: &[usize]) -> Value {
    json!({"kind": "history", "ops": hist, "parts": parts})
}

/// The partitions a history is executed under: earlier sequences one write each, the last
/// sequence (with its text) under every partition with <= `max_cuts` cuts and byte by byte;
/// plus the whole history in one write and the whole history byte by byte.
fn history_partitions(hist: &[SgrOp], max_cuts: usize, mut f: impl FnMut(&[usize]) -> bool) -> u64 {
    let lens: Vec<usize> = hist.iter().map(|op| op_bytes(op).len()).collect();
    let total: usize = lens.iter().sum();
    let mut count = 0;
    if hist.is_empty() {
        f(&[]);
        return 1;
    }
    let (prefix, last) = lens.split_at(lens.len() - 1);
    let n = last[0];
    let mut go = true;
    count += for_partitions(n, max_cuts, |p| {
        let parts: Vec<usize> = prefix.iter().copied().chain(p.iter().copied()).collect();
        go = f(&parts);
        go
    });
    if !go {
        return count;
    }
    let extra: [Vec<usize>; 3] = [
        prefix.iter().copied().chain(std::iter::repeat(1).take(n)).collect(),
        vec![total],
        vec![1; total],
    ];
    for parts in extra {
        count += 1;
        if !f(&parts) {
            return count;
        }
    }
    // a write that ends inside the text of the sequence BEFORE the last one (with and without the sequence itself
    // in the same write), so that the rest of the character arrives together with the next escape sequence; the
    // remainder whole and cut once more at every position
    if lens.len() >= 2 {
        let tl = TEXT.len_utf8();
        let (head, two) = lens.split_at(lens.len() - 2);
        let (pl, n) = (two[0], two[1]);
        for split_seq in [true, false] {
            for third in 0..n {
                let mut parts: Vec<usize> = head.to_vec();
                if split_seq {
                    parts.push(pl - tl);
                    parts.push(1);
                } else {
                    parts.push(pl - tl + 1);
                }
                let rest = tl - 1 + n;
                if third == 0 {
                    parts.push(rest);
                } else {
                    parts.push(tl - 1 + third);
                    parts.push(n - third);
                }
                count += 1;
                if !f(&parts) {
                    return count;
                }
            }
        }
    }
    count
}

fn ops_up_to(tokens: &[&'static str], max_params: usize) -> Vec<SgrOp> {
    let mut out: Vec<SgrOp> = vec![];
    let mut level: Vec<SgrOp> = vec![vec![]];
    for _ in 0..max_params {
        let mut next = vec![];
        for p in &level {
            for t in tokens {
                let mut q = p.clone();
                q.push(*t);
                next.push(q);
            }
        }
        out.extend(next.iter().cloned());
        level = next;
    }
    out
}

pub fn run(ctx: &Ctx) -> Result<Report, String> {
    let viol = Violations::new();
    let samples = Samples::new(ctx.seed);
    let items = AtomicU64::new(0);
    let runs = AtomicU64::new(0);
    let mut base = 0u64;
    let mut sizes = serde_json::Map::new();

    // ---- (a) round trip -------------------------------------------------------------
    let few: Vec<Rgb> = vec![[0, 0, 0], [1, 128, 255], [255, 255, 255]];
    let one: Vec<Rgb> = vec![[1, 128, 255]];
    // modifications: all non-colour fields x colours from {None, 3 colours}^3
    let wide = ModSpace { cols: opt(&few) };
    let narrow = ModSpace { cols: opt(&one) };
    let (two_cut_mods, one_cut_mods) = match ctx.tier {
        Tier::Quick => (&narrow, Some(&wide)),
        Tier::Thorough => (&wide, None),
    };
    sweep_items(ctx, two_cut_mods.size(), 2, |i| Item::Modify(two_cut_mods.get(i)), &viol, &samples, base, &items, &runs);
    base += two_cut_mods.size();
    sizes.insert("modifications_two_cuts".into(), json!(two_cut_mods.size()));
    if let Some(s) = one_cut_mods {
        sweep_items(ctx, s.size(), 1, |i| Item::Modify(s.get(i)), &viol, &samples, base, &items, &runs);
        base += s.size();
        sizes.insert("modifications_one_cut".into(), json!(s.size()));
    }
    // the same records between two characters (single write and <= 1 cut)
    sweep_items(ctx, narrow.size(), 1, |i| Item::ModifyCtx(narrow.get(i)), &viol, &samples, base, &items, &runs);
    base += narrow.size();
    sizes.insert("modifications_between_text".into(), json!(narrow.size()));

    if std::env::var_os("SNT_TIMING").is_some() {
        eprintln!("mods {:.2}", ctx.elapsed());
    }
    // colour values: one colour field at a time over a lattice with every digit-length mix,
    // alone / after reset / followed by another parameter
    let vals: &[u8] = ctx.tier.pick(&[0, 9, 10, 99, 100, 255][..], &[0, 1, 9, 10, 99, 100, 127, 128, 199, 200, 254, 255][..]);
    let lattice = cube(vals);
    let colour_total = (lattice.len() * 9) as u64;
    sweep_items(
        ctx,
        colour_total,
        2,
        |i| {
            let c = Some(lattice[(i / 9) as usize]);
            let mut m = ModSpec::default();
            match i % 3 {
                0 => m.fg = c,
                1 => m.bg = c,
                _ => m.ulc = c,
            }
            match i / 3 % 3 {
                0 => {}
                1 => m.reset = true,
                _ => m.strike = Some(false),
            }
            Item::Modify(m)
        },
        &viol,
        &samples,
        base,
        &items,
        &runs,
    );
    base += colour_total;
    sizes.insert("colour_lattice_modifications".into(), json!(colour_total));
    // every value of one channel (the other two fixed at a one-digit and a three-digit value)
    let channel_total: u64 = 3 * 256 * 9;
    sweep_items(
        ctx,
        channel_total,
        1,
        |i| {
            let v = (i / 9 % 256) as u8;
            let mut rgb = [7u8, 200, 45];
            rgb[(i / 9 / 256) as usize] = v;
            let c = Some(rgb);
            let mut m = ModSpec::default();
            match i % 3 {
                0 => m.fg = c,
                1 => m.bg = c,
                _ => m.ulc = c,
            }
            match i / 3 % 3 {
                0 => {}
                1 => m.reset = true,
                _ => m.strike = Some(false),
            }
            Item::Modify(m)
        },
        &viol,
        &samples,
        base,
        &items,
        &runs,
    );
    base += channel_total;
    sizes.insert("every_channel_value_modifications".into(), json!(channel_total));

    if std::env::var_os("SNT_TIMING").is_some() {
        eprintln!("colours {:.2}", ctx.elapsed());
    }
    // faces
    let small = FaceSpace { cols: opt(&cube(&[0, 128, 255])) };
    let tiny = FaceSpace { cols: opt(&[[1, 128, 255], [255, 255, 255]]) };
    let big = FaceSpace { cols: opt(&cube(&[0, 1, 127, 128, 255])) };
    let (two_cut_faces, one_cut_faces) = match ctx.tier {
        Tier::Quick => (&tiny, &small),
        Tier::Thorough => (&small, &big),
    };
    sweep_items(ctx, two_cut_faces.size(), 2, |i| Item::Face(two_cut_faces.get(i)), &viol, &samples, base, &items, &runs);
    base += two_cut_faces.size();
    sweep_items(ctx, one_cut_faces.size(), 1, |i| Item::Face(one_cut_faces.get(i)), &viol, &samples, base, &items, &runs);
    base += one_cut_faces.size();
    sizes.insert("faces_two_cuts".into(), json!(two_cut_faces.size()));
    sizes.insert("faces_one_cut".into(), json!(one_cut_faces.size()));

    if std::env::var_os("SNT_TIMING").is_some() {
        eprintln!("faces {:.2}", ctx.elapsed());
    }
    // every character except ESC (all 1 112 063 of them), alone under every partition of its
    // UTF-8 bytes, and around a modification
    let all_chars: Vec<u32> = (0..=0x10ffffu32).filter(|c| char::from_u32(*c).is_some() && *c != 0x1b).collect();
    sweep_items(ctx, all_chars.len() as u64, 2, |i| Item::Char(all_chars[i as usize]), &viol, &samples, base, &items, &runs);
    base += all_chars.len() as u64;
    let ctx_step = ctx.tier.pick(17usize, 1usize);
    let ctx_chars: Vec<u32> = all_chars.iter().copied().step_by(ctx_step).collect();
    sweep_items(ctx, ctx_chars.len() as u64, 1, |i| Item::CharCtx(ctx_chars[i as usize]), &viol, &samples, base, &items, &runs);
    sizes.insert("characters".into(), json!(all_chars.len()));
    sizes.insert("characters_around_modification".into(), json!(ctx_chars.len()));
    let roundtrip_capped = ctx.over_cap();

    if std::env::var_os("SNT_TIMING").is_some() {
        eprintln!("chars {:.2}", ctx.elapsed());
    }
    // ---- (b) histories ---------------------------------------------------------------
    let pal = palette_probe().map_err(|e| format!("palette probe: {e}"))?;
    let palette_checks = palette_consistency(&pal, &viol);
    let encoder_histories = encoder_history(&viol);
    let traces = AtomicU64::new(0);
    let ops2 = ops_up_to(&TOKENS, 2);
    // thorough: deep enough to close the state graph (the BFS stops at the fixpoint)
    let depth = ctx.tier.pick(2, 8);
    let step = |hist: &[SgrOp], max_cuts: usize| -> Option<u128> {
        let mut key = None;
        let n = history_partitions(hist, max_cuts, |parts| match check_history(hist, parts, &pal) {
            Ok(face) => {
                key = Some(hash128(&face));
                true
            }
            Err((kind, detail)) => {
                viol.add(format!("sgr-history:{kind}"), detail, hist_json(hist, parts));
                key = None;
                false
            }
        });
        traces.fetch_add(n, Ordering::Relaxed);
        if key.is_some() && !hist.is_empty() {
            // the same history into a target that is full after 0 / 1 cells and is rewound afterwards
            let lens: Vec<usize> = hist.iter().map(|op| op_bytes(op).len()).collect();
            let total: usize = lens.iter().sum();
            for cap in [0usize, 1] {
                for parts in [vec![total], lens.clone(), vec![1; total]] {
                    traces.fetch_add(1, Ordering::Relaxed);
                    if let Err((kind, detail)) = check_history_full_target(hist, &parts, cap, &pal) {
                        viol.add(format!("sgr-history:{kind}"), detail, json!({"kind": "history", "ops": hist, "parts": parts, "full_target_cap": cap}));
                        key = None;
                    }
                }
            }
        }
        if key.is_some() && !hist.is_empty() {
            samples.offer(crate::engine::util::hash64(hist) | 4, || {
                json!({"history": hist, "cell_faces": show_faces(&model_faces(hist, &pal))})
            });
        }
        key
    };
    let stats = bfs::bfs(ctx, &ops2, depth, |hist| step(hist, 2));
    for hist in [vec![vec!["1", "4:3"], vec!["38;2;1;128;255", "9"]], vec![vec!["4:2"], vec!["24", "42"]]] {
        let bytes: Vec<u8> = hist.iter().flat_map(op_bytes).collect();
        samples.force(json!({
            "history": hist,
            "bytes": esc(&bytes),
            "reference_cell_faces": show_faces(&model_faces(&hist, &pal)),
            "library_cell_faces": write_parts(&bytes, &[bytes.len()]).map(|(c, _)| show_faces(&c.iter().map(|c| c.face()).collect::<Vec<_>>())).unwrap_or_else(|e| e),
        }));
    }

    if std::env::var_os("SNT_TIMING").is_some() {
        eprintln!("bfs {:.2}", ctx.elapsed());
    }
    // sequences with three parameters: from the initial state under all <= 2-cut partitions ...
    let ops3: Vec<SgrOp> = ops_up_to(&TOKENS, 3).into_iter().filter(|o| o.len() == 3).collect();
    let three_ok = AtomicU64::new(0);
    ops3.par_iter().for_each(|op| {
        if step(std::slice::from_ref(op), 2).is_some() {
            three_ok.fetch_add(1, Ordering::Relaxed);
        }
    });
    // ... and (thorough) after every one- or two-parameter sequence, whole and byte by byte
    let mut two_step = 0u64;
    if ctx.tier == Tier::Thorough && !ctx.over_cap() {
        let done = AtomicU64::new(0);
        ops2.par_iter().for_each(|first| {
            if ctx.over_cap() {
                return;
            }
            for second in &ops3 {
                let hist = [first.clone(), second.clone()];
                step(&hist, 0);
            }
            done.fetch_add(ops3.len() as u64, Ordering::Relaxed);
        });
        two_step = done.load(Ordering::Relaxed);
    }
    if std::env::var_os("SNT_TIMING").is_some() {
        eprintln!("three {:.2}", ctx.elapsed());
    }
    let capped = roundtrip_capped || stats.capped || ctx.over_cap();

    let mut r = Report::new("model_checking");
    r.set("states", stats.states)
        .set("transitions", stats.transitions)
        .set("traces_validated_against_impl", traces.load(Ordering::Relaxed))
        .set("samples", samples.into_vec())
        .set("exhaustive", !capped)
        .set("capped", capped)
        .set("bfs_depth_completed", stats.max_depth)
        .set("bfs_levels", stats.levels.clone())
        .set("bfs_fixpoint", stats.fixpoint)
        .set("bfs_pruned", stats.pruned)
        .set("alphabet_tokens", TOKENS.len())
        .set("alphabet_sequences_1_2_params", ops2.len())
        .set("three_param_sequences_from_initial_state", ops3.len())
        .set("three_param_sequences_agreeing", three_ok.load(Ordering::Relaxed))
        .set("two_step_histories_with_three_param_sequence", two_step)
        .set("palette_consistency_checks", palette_checks)
        .set("encoder_histories", encoder_histories)
        .set("roundtrip_items", items.load(Ordering::Relaxed))
        .set("roundtrip_decodes", runs.load(Ordering::Relaxed))
        .set("roundtrip_spaces", Value::Object(sizes))
        .set("raw_violations", viol.raw_count());
    r.assume("SGR semantics = model::sgr (ECMA-48 8.3.117, xterm ctlseqs, kitty underline extension)");
    r.assume("alphabet = codes the library's SGR interpreter has an arm for; 21 is left out: the library reads it as bold-off, ECMA-48/xterm as double underline, terminals disagree, the statement is silent");
    r.assume("palette entries 16..=255 have xterm's RGB values; entries 0..=15 only have to be used consistently (3x = 9x-8 = 38;5;n = 38:5:n, same for background)");
    r.assume("the underline colour (58) has no slot in Face; its parameters must be consumed without any other effect");
    r.assume("history partitions: earlier sequences one write each, the last one under every <= 2-cut partition and byte by byte, plus the whole history in one write and byte by byte");
    r.assume("round trip partitions: every partition with <= 2 cuts on the smaller lattice, <= 1 cut on the larger one (sizes in roundtrip_spaces)");
    r.violations = viol.into_vec();
    Ok(r)
}

pub fn replay(w: &Value) -> Result<(bool, String), String> {
    if w["kind"].as_str() == Some("encoder-history") {
        let a: Item = serde_json::from_value(w["first"].clone()).map_err(|e| format!("first: {e}"))?;
        let b: Item = serde_json::from_value(w["second"].clone()).map_err(|e| format!("second: {e}"))?;
        let k = w["sink_accepts"].as_u64().map(|k| k as usize);
        return Ok(match encoder_history_case(&a, &b, k) {
            Ok(()) => (false, format!("{} then {} on one encoder: the second is read back as written", show_cmds(&a.commands()), show_cmds(&b.commands()))),
            Err((kind, detail)) => (true, format!("[{kind}] {detail}")),
        });
    }
    let parts: Vec<usize> = serde_json::from_value(w["parts"].clone()).map_err(|e| format!("parts: {e}"))?;
    match w["kind"].as_str() {
        Some("roundtrip") => {
            let item: Item = serde_json::from_value(w["item"].clone()).map_err(|e| format!("item: {e}"))?;
            let bytes = match encode_all(item.commands()) {
                Ok(b) => b,
                Err(e) => return Ok((true, format!("written  {:?}\n{e}", item.commands()))),
            };
            let parts = if parts.is_empty() && !bytes.is_empty() { vec![bytes.len()] } else { parts };
            if parts.iter().sum::<usize>() != bytes.len() {
                return Err(format!("partition {:?} does not fit the {} encoded bytes (encoder changed?)", parts, bytes.len()));
            }
            let head = format!(
                "written  {}\nbytes    {:?} in parts {:?}\nexpected {}\nobserved {}",
                show_cmds(&item.commands()),
                esc(&bytes),
                parts,
                show_cmds(&item.expected()),
                match decode_parts(&bytes, &parts) {
                    Ok(got) => show_cmds(&got),
                    Err(e) => e,
                }
            );
            Ok(match roundtrip(&item, &bytes, &parts) {
                Ok(()) => (false, format!("{head}\nagrees")),
                Err((kind, _)) => (true, format!("{head}\n[{kind}]")),
            })
        }
        Some("history") => {
            let ops: Vec<Vec<String>> = serde_json::from_value(w["ops"].clone()).map_err(|e| format!("ops: {e}"))?;
            let hist: Vec<SgrOp> = ops
                .into_iter()
                .map(|op| op.into_iter().map(|t| &*Box::leak(t.into_boxed_str())).collect())
                .collect();
            let pal = palette_probe()?;
            let bytes: Vec<u8> = hist.iter().flat_map(op_bytes).collect();
            if parts.iter().sum::<usize>() != bytes.len() {
                return Err(format!("partition {:?} does not fit {} bytes", parts, bytes.len()));
            }
            let head = format!(
                "history  {:?}\nbytes    {:?} in parts {:?}\nexpected cell faces {}\nobserved cell faces {}",
                hist,
                esc(&bytes),
                parts,
                show_faces(&model_faces(&hist, &pal)),
                match write_parts(&bytes, &parts) {
                    Ok((cells, _)) => show_faces(&cells.iter().map(|c| c.face()).collect::<Vec<_>>()),
                    Err(e) => e,
                }
            );
            if let Some(cap) = w["full_target_cap"].as_u64() {
                return Ok(match check_history_full_target(&hist, &parts, cap as usize, &pal) {
                    Ok(()) => (false, format!("{head}\n(target with room for {cap} cell(s), then rewound) agrees")),
                    Err((kind, detail)) => (true, format!("{head}\n[{kind}] {detail}")),
                });
            }
            Ok(match check_history(&hist, &parts, &pal) {
                Ok(_) => (false, format!("{head}\nagrees")),
                Err((kind, detail)) => (true, format!("{head}\n[{kind}] {detail}")),
            })
        }
        _ => Err("witness without kind".into()),
    }
}
