//! C02 -- input decoding is total: no byte stream can crash it or yield malformed events.
//!
//! Spaces (enumerated completely in worker subprocesses, so that an abort or a hang is attributed
//! to the exact input and confirmed in a fresh process):
//!  B  every byte string of length <= 2 (quick) / 3 (thorough) over all 256 bytes, three decoders,
//!     fed whole / at every cut / byte by byte with empty reads;
//!  U  UTF-8 lattice: every lead byte x continuation bytes from the boundary set (overlong,
//!     surrogate, > U+10FFFF, truncated), and every Unicode scalar value well-formed;
//!  H  hostile-token lattice: every sequence family's syntax with every numeric field drawn from
//!     the hostile set (empty, 0, 1, ..., 2^64, 20 and 40 nines, leading zeros), list shapes,
//!     payload variants; numeric fields of the decoded event must be exact, clamped, or the
//!     sequence must come out unrecognised - never wrapped or truncated;
//!  E  all single (thorough: double) byte edits of base tokens - a deviation-bounded
//!     neighbourhood of well-formed input.
//! (All strings up to length 4-5 over the representative alphabet under all partitions are
//! covered by the same driver in C03; totality problems found there are reported there.)
use super::c03::{check_and_report, descriptor, for_strings, string_witness, which_from_u8, Local};
use super::decoder_common::*;
use crate::engine::catch;
use crate::engine::report::{Ctx, Report, Tier, Violation};
use crate::engine::util::{esc, hex, unhex};
use crate::engine::workers::{self, WorkerCtx};
use serde_json::{json, Value};
use std::collections::BTreeMap;
use std::time::{Duration, Instant};
use surf_n_term::{KeyName, TerminalCommand, TerminalEvent};

pub const HOSTILE: [&str; 16] = [
    "",
    "0",
    "1",
    "9",
    "10",
    "255",
    "256",
    "65535",
    "65536",
    "4294967295",
    "4294967296",
    "18446744073709551615",
    "18446744073709551616",
    "99999999999999999999",
    "9999999999999999999999999999999999999999",
    "007",
];

/// exact value of a decimal string, saturating at u128::MAX
fn exact(text: &str) -> Option<u128> {
    if text.is_empty() {
        return None;
    }
    let mut v: u128 = 0;
    for b in text.bytes() {
        if !b.is_ascii_digit() {
            return None;
        }
        v = v.saturating_mul(10).saturating_add((b - b'0') as u128);
    }
    Some(v)
}

/// a decoded numeric field is acceptable if it is the exact value or the field's maximum
/// (clamped); an empty parameter may be read as 0 or as the protocol default 1
fn num_ok(text: &str, actual: u128, max: u128) -> bool {
    match exact(text) {
        None => actual == 0 || actual == 1,
        Some(e) => {
            if e <= max {
                actual == e
            } else {
                actual == max
            }
        }
    }
}

/// 1-based coordinate decoded to 0-based
fn coord_ok(text: &str, actual: u128, max: u128) -> bool {
    match exact(text) {
        None => actual == 0,
        Some(0) => actual == 0, // clamped
        Some(e) => {
            if e - 1 <= max {
                actual == e - 1
            } else {
                actual == max
            }
        }
    }
}

#[derive(Clone)]
pub struct Template {
    pub family: &'static str,
    /// literal pieces interleaved with numeric fields: pieces.len() == fields + 1
    pub pieces: Vec<Vec<u8>>,
}

fn tpl(family: &'static str, pattern: &str) -> Template {
    // `#` marks a numeric field, `\e` is ESC
    let bytes = pattern.replace("\\e", "\x1b").into_bytes();
    let pieces: Vec<Vec<u8>> = bytes.split(|b| *b == b'#').map(|p| p.to_vec()).collect();
    Template { family, pieces }
}

/// Space N: sequences with one swept numeric field (`#`), the other fields fixed at ordinary values.
pub const NUMERIC_SWEEPS: [&str; 16] = [
    "\\e[#u",
    "\\e[#;5u",
    "\\e[97;#u",
    "\\e[97:#;2u",
    "\\e[97;2:#u",
    "\\e[?#u",
    "\\e[#~",
    "\\e[1;#A",
    "\\e[?#;1$y",
    "\\e[?25;#$y",
    "\\e[?2026;#$y",
    "\\e[<#;10;5M",
    "\\e[<#;10;5m",
    "\\e[#m",
    "\\e[38;5;#m",
    "\\e[4:#m",
];

/// For the sweeps whose decoded event carries the swept number: (family, pattern with every number a field,
/// the fixed fields; `#` marks the swept one). Indexed like NUMERIC_SWEEPS.
const SWEEP_FIELDS: [Option<(&str, &str, &[&str])>; 16] = [
    Some(("kitty-key", "\\e[#u", &["#"])),
    Some(("kitty-key", "\\e[#;#u", &["#", "5"])),
    None,
    None,
    None,
    Some(("kitty-level", "\\e[?#u", &["#"])),
    None,
    None,
    Some(("decmode", "\\e[?#;#$y", &["#", "1"])),
    Some(("decmode", "\\e[?#;#$y", &["25", "#"])),
    Some(("decmode", "\\e[?#;#$y", &["2026", "#"])),
    Some(("mouse", "\\e[<#;#;#M", &["#", "10", "5"])),
    Some(("mouse", "\\e[<#;#;#m", &["#", "10", "5"])),
    None,
    None,
    None,
];

pub fn templates() -> Vec<Template> {
    vec![
        tpl("cursor", "\\e[#;#R"),
        tpl("mouse", "\\e[<#;#;#M"),
        tpl("mouse", "\\e[<#;#;#m"),
        tpl("decmode", "\\e[?#;#$y"),
        tpl("da1", "\\e[?#c"),
        tpl("da1", "\\e[?#;#c"),
        tpl("da1", "\\e[?#;#;c"),
        tpl("sgr", "\\e[#m"),
        tpl("sgr", "\\e[#;#m"),
        tpl("sgr", "\\e[38;5;#m"),
        tpl("sgr", "\\e[48;5;#m"),
        tpl("sgr-rgb", "\\e[38;2;#;#;#m"),
        tpl("sgr-rgb", "\\e[48:2:#:#:#m"),
        tpl("sgr-rgb", "\\e[58:2::#:#:#m"),
        tpl("sgr", "\\e[4:#m"),
        tpl("sgr", "\\e[#:#;#m"),
        tpl("kitty-image", "\\e_Gi=#;OK\\e\\"),
        tpl("kitty-image", "\\e_Gi=#,p=#;OK\\e\\"),
        tpl("kitty-image", "\\e_Gi=#,p=#;ENOENT:x\\e\\"),
        tpl("kitty-key", "\\e[#u"),
        tpl("kitty-key", "\\e[#;#u"),
        tpl("kitty-key", "\\e[#:#;#:#u"),
        tpl("kitty-key", "\\e[#;#;#u"),
        tpl("kitty-level", "\\e[?#u"),
        tpl("osc", "\\e]#;#;rgb:ff/00/7f\\e\\"),
        tpl("osc", "\\e]#;rgb:ff/00/7f\x07"),
        tpl("osc", "\\e]4;#;#ff007f\\e\\"),
        tpl("decrpss", "\\eP1$r#;#m\\e\\"),
        tpl("decrpss", "\\eP1$r38;2;#;#;#m\\e\\"),
        tpl("decrpss", "\\eP0$r#m\\e\\"),
        tpl("size", "\\e[8;#;#t\\e[4;#;#t"),
        tpl("tilde-key", "\\e[#~"),
        tpl("tilde-key", "\\e[#;#~"),
        tpl("arrow-key", "\\e[1;#A"),
        tpl("arrow-key", "\\e[#;#A"),
        tpl("paste", "\\e[200~#\\e[201~"),
    ]
}

fn render(t: &Template, fields: &[&str]) -> Vec<u8> {
    let mut out = t.pieces[0].clone();
    for (i, f) in fields.iter().enumerate() {
        out.extend_from_slice(f.as_bytes());
        out.extend_from_slice(&t.pieces[i + 1]);
    }
    out
}

/// extra fixed hostile tokens (list shapes, payloads, truncations)
pub fn fixed_tokens() -> Vec<Vec<u8>> {
    let mut v: Vec<Vec<u8>> = vec![];
    for s in [
        "\x1b[u", "\x1b[;u", "\x1b[;;u", "\x1b[:u", "\x1b[::;::u", "\x1b[m", "\x1b[;m", "\x1b[;;m", "\x1b[1;m", "\x1b[:m",
        "\x1b[38m", "\x1b[38;m", "\x1b[38;5m", "\x1b[38;2m", "\x1b[38;2;1m", "\x1b[38;2;1;2m", "\x1b[38:2m", "\x1b[38:5m",
        "\x1b[38;9;1m", "\x1b[48;2;1;2;3;4;5m", "\x1b[4:m", "\x1b[4:9m", "\x1b[58;5;1m", "\x1b[?c", "\x1b[?;c", "\x1b[?1;;c",
        "\x1b[?u", "\x1b_G;\x1b\\", "\x1b_Gi=1\x1b\\", "\x1b_Gi=;OK\x1b\\", "\x1b_Gi=1,,p=2;OK\x1b\\", "\x1b_Gi=1,p;OK\x1b\\",
        "\x1b_Gi=1,i=2;OK\x1b\\", "\x1b_Ga=b;\x1b\\", "\x1b]4\x1b\\", "\x1b]4;\x1b\\", "\x1b]4;1\x1b\\", "\x1b]4;1;\x1b\\",
        "\x1b]10;rgb:\x1b\\", "\x1b]10;rgb:1\x1b\\", "\x1b]10;rgb:1/2\x1b\\", "\x1b]10;rgb:12345/1/1\x1b\\", "\x1b]10;rgb:/ /\x1b\\",
        "\x1b]10;rgb:g/0/0\x1b\\", "\x1b]10;#\x1b\\", "\x1b]10;#1\x1b\\", "\x1b]10;#12345\x1b\\", "\x1b]10;#1234567890\x1b\\",
        "\x1b]10;#gggggg\x1b\\", "\x1b]11;?\x1b\\", "\x1b]12;x\x07", "\x1b]10;rgb:+1/-1/ 1\x07", "\x1b]10;#+1+1+1\x07",
        "\x1bP1$r\x1b\\", "\x1bP1$rm\x1b\\", "\x1bP1$r;m\x1b\\", "\x1bP1$rx\x1b\\", "\x1bP0$r\x1b\\", "\x1bP1+r\x1b\\",
        "\x1bP0+r\x1b\\", "\x1bP1+r41=\x1b\\", "\x1bP1+r=41\x1b\\", "\x1bP1+r41=42;\x1b\\", "\x1bP1+r4=4\x1b\\", "\x1bP1+r41=42;43\x1b\\",
        "\x1bP1+rff=fe\x1b\\", "\x1bP0+rff;fe\x1b\\", "\x1bP1+r80=c3\x1b\\", "\x1b[200~\x1b[201~", "\x1b[200~\x1b", "\x1b[200~\x1b[",
        "\x1b[200~\x1b[201", "\x1b[200~a\x1b[200~b\x1b[201~", "\x1b[8;1;1t", "\x1b[8;1;1t\x1b[4;1;1", "\x1b[8;;t\x1b[4;;t",
        "\x1b", "\x1b\x1b", "\x1b[", "\x1bO", "\x1bP", "\x1b]", "\x1b_", "\x1b[<", "\x1b[<1", "\x1b[<1;", "\x1b[<1;1;1",
    ] {
        v.push(s.as_bytes().to_vec());
    }
    // OSC colour replies whose components are hostile: empty, too long, signs, multi-byte
    // characters at every offset, invalid UTF-8
    let comps: [&[u8]; 12] = [
        b"0", b"ff", b"fff", b"ffff", b"12345", b"", b"+1", "0\u{e9}".as_bytes(), "\u{e9}0".as_bytes(), "a\u{20ac}".as_bytes(),
        "\u{20ac}".as_bytes(), b"0\x80",
    ];
    for name in [&b"10"[..], b"11", b"4;1"] {
        for c1 in comps.iter() {
            for c2 in comps.iter() {
                for c3 in comps.iter() {
                    let mut t = b"\x1b]".to_vec();
                    t.extend_from_slice(name);
                    t.extend_from_slice(b";rgb:");
                    t.extend_from_slice(c1);
                    t.push(b'/');
                    t.extend_from_slice(c2);
                    t.push(b'/');
                    t.extend_from_slice(c3);
                    t.push(0x07);
                    v.push(t);
                }
            }
        }
    }
    // OSC colour replies whose VALUE is not of the expected shape at all: every short ASCII lead (with and
    // without the expected prefixes), then a multi-byte character or a stray continuation byte, then a tail -
    // so that a character straddles every small byte offset a parser might cut at
    for name in [&b"10"[..], b"4;1"] {
        for lead in ["", "r", "rg", "rgb", "rgb:", "RGB:", "#", "#1", "#12", "#123", "#1234", "#12345", "abc", "abcd", "abcde", "rgb:1/2/"] {
            for ch in ["\u{e9}".as_bytes(), "\u{20ac}".as_bytes(), "\u{1f600}".as_bytes(), b"\x80"] {
                for tail in ["", "/0/0", "00"] {
                    let mut t = b"\x1b]".to_vec();
                    t.extend_from_slice(name);
                    t.push(b';');
                    t.extend_from_slice(lead.as_bytes());
                    t.extend_from_slice(ch);
                    t.extend_from_slice(tail.as_bytes());
                    t.push(0x07);
                    v.push(t);
                }
            }
        }
    }
    // non UTF-8 and long payloads
    for payload in [vec![0xffu8, 0xfe], vec![0xc3], vec![0xed, 0xa0, 0x80], vec![b'x'; 4096]] {
        let mut t = b"\x1b[200~".to_vec();
        t.extend(&payload);
        t.extend(b"\x1b[201~");
        v.push(t);
        let mut t = b"\x1b]10;".to_vec();
        t.extend(&payload);
        t.extend(b"\x1b\\");
        v.push(t);
        let mut t = b"\x1b_Gi=1;".to_vec();
        t.extend(&payload);
        t.extend(b"\x1b\\");
        v.push(t);
        let mut t = b"\x1bP1$r".to_vec();
        t.extend(&payload);
        t.extend(b"m\x1b\\");
        v.push(t);
    }
    v
}

/// Field check of the first decoded item of a rendered template.
fn field_problem(t: &Template, fields: &[&str], first: Option<&Out>) -> Option<String> {
    let um = usize::MAX as u128;
    let ev = match first {
        Some(Out::Event(e)) => e,
        _ => return None,
    };
    match (t.family, ev) {
        ("cursor", TerminalEvent::CursorPosition(p)) => {
            if !coord_ok(fields[0], p.row as u128, um) || !coord_ok(fields[1], p.col as u128, um) {
                return Some(format!("cursor report fields {:?} decoded as {:?}", fields, p));
            }
        }
        ("mouse", TerminalEvent::Mouse(m)) => {
            if !coord_ok(fields[1], m.pos.col as u128, um) || !coord_ok(fields[2], m.pos.row as u128, um) {
                return Some(format!("mouse report fields {:?} decoded as {:?}", fields, m));
            }
        }
        ("size", TerminalEvent::Size(s)) => {
            let got = [s.cells.height, s.cells.width, s.pixels.height, s.pixels.width];
            for i in 0..4 {
                if !num_ok(fields[i], got[i] as u128, um) {
                    return Some(format!("size report fields {:?} decoded as {:?}", fields, s));
                }
            }
        }
        ("kitty-image", TerminalEvent::KittyImage { id, placement, .. }) => {
            if !num_ok(fields[0], *id as u128, u64::MAX as u128) {
                return Some(format!("kitty image id {:?} decoded as {}", fields[0], id));
            }
            if fields.len() > 1 {
                if let Some(p) = placement {
                    if !num_ok(fields[1], *p as u128, u64::MAX as u128) {
                        return Some(format!("kitty placement {:?} decoded as {}", fields[1], p));
                    }
                }
            }
        }
        ("kitty-level", TerminalEvent::KeyboardLevel(l)) => {
            if !num_ok(fields[0], *l as u128, um) {
                return Some(format!("keyboard level {:?} decoded as {}", fields[0], l));
            }
        }
        ("kitty-key", TerminalEvent::Key(k)) => {
            if let KeyName::Char(c) = k.name {
                // the code field must be the scalar value itself
                match exact(fields[0]) {
                    Some(e) if e == c as u128 => {}
                    None if (c as u32) <= 1 => {}
                    // documented aliases in the key table (13 enter, 9 tab, 27 esc, 127 backspace) are not Char
                    other => return Some(format!("kitty key code {:?} ({:?}) decoded as {:?}", fields[0], other, k)),
                }
            }
            if let KeyName::F(n) = k.name {
                match exact(fields[0]) {
                    Some(e) if (57376..=57398).contains(&e) && e - 57376 + 13 == n as u128 => {}
                    other => return Some(format!("kitty key code {:?} ({:?}) decoded as {:?}", fields[0], other, k)),
                }
            }
        }
        ("da1", TerminalEvent::DeviceAttrs(set)) => {
            // every reported attribute must be one of the transmitted numbers (exact or clamped)
            for a in set {
                if !fields.iter().any(|f| exact(f).is_some() && num_ok(f, *a as u128, um)) {
                    return Some(format!("DA1 fields {:?} decoded as {:?}", fields, set));
                }
            }
        }
        ("decmode", TerminalEvent::DecMode { mode, status }) => {
            if exact(fields[0]) != Some(*mode as usize as u128) || exact(fields[1]) != Some(*status as usize as u128) {
                return Some(format!("DECRPM fields {:?} decoded as {:?}/{:?}", fields, mode, status));
            }
        }
        ("osc", TerminalEvent::Color { name, .. }) => {
            if let surf_n_term::TerminalColor::Palette(i) = name {
                let f = if t.pieces[0].ends_with(b"4;") { fields[0] } else { fields[1] };
                if !num_ok(f, *i as u128, um) {
                    return Some(format!("palette index {:?} decoded as {}", f, i));
                }
            }
        }
        ("sgr-rgb", TerminalEvent::Command(TerminalCommand::FaceModify(m))) => {
            for c in [m.fg, m.bg, m.underline_color].into_iter().flatten() {
                let [r, g, b, _] = surf_n_term::Color::to_rgba(c);
                let got = [r, g, b];
                for i in 0..3 {
                    if !num_ok(fields[i], got[i] as u128, 255) {
                        return Some(format!("SGR colour components {:?} decoded as {:?}", fields, got));
                    }
                }
            }
        }
        _ => {}
    }
    None
}

struct Params {
    bytes_len: usize,
    double_edits: bool,
}

fn params(tier: Tier) -> Params {
    match tier {
        Tier::Quick => Params { bytes_len: 2, double_edits: false },
        Tier::Thorough => Params { bytes_len: 3, double_edits: true },
    }
}

fn edit_alphabet() -> Vec<u8> {
    super::c03::base_alphabet(Which::Event)
}

fn small_edit_alphabet() -> Vec<u8> {
    vec![0x1b, b'[', b';', b':', b'0', b'9', b'm', b'R', b'u', b'~', b'\\', 0x80]
}

fn single_edits(base: &[u8], alpha: &[u8], f: &mut dyn FnMut(&[u8])) {
    let mut buf: Vec<u8> = Vec::with_capacity(base.len() + 1);
    for i in 0..=base.len() {
        // insert
        for b in alpha {
            buf.clear();
            buf.extend_from_slice(&base[..i]);
            buf.push(*b);
            buf.extend_from_slice(&base[i..]);
            f(&buf);
        }
        if i < base.len() {
            // delete
            buf.clear();
            buf.extend_from_slice(&base[..i]);
            buf.extend_from_slice(&base[i + 1..]);
            f(&buf);
            // replace
            for b in alpha {
                if *b == base[i] {
                    continue;
                }
                buf.clear();
                buf.extend_from_slice(base);
                buf[i] = *b;
                f(&buf);
            }
        }
    }
}

fn base_tokens() -> Vec<Vec<u8>> {
    let mut v = vec![];
    for t in templates() {
        let n = t.pieces.len() - 1;
        for fill in ["1", "0", "65536"] {
            let fields: Vec<&str> = (0..n).map(|_| fill).collect();
            v.push(render(&t, &fields));
        }
    }
    for s in [
        "\x1bOP", "\x1b[A", "\x1b[1;5A", "\x1b[15~", "\x1b[15;3~", "\x1ba", "\x1b[?1000;1$y", "\x1b[?62;4c", "\x1b[97;15R",
        "\x1b[<0;94;14M", "\x1b]4;1;rgb:cc/24/1d\x1b\\", "\x1b]10;#ebdbb2\x07", "\x1bP1$r48:2:1:2:3m\x1b\\",
        "\x1bP1+r62656c=5e47;626f6c64=1b5b316d\x1b\\", "\x1bP0+r73757266;7465726d\x1b\\", "\x1b_Gi=31,p=11;error message\x1b\\",
        "\x1b[200~ab\x1b[201~", "\x1b[99;5u", "\x1b[?15u", "\x1b[8;101;202t\x1b[4;3104;1482t", "\x1b[1;4;91;102m", "\x1b[38:2:255:128:64m",
        "\u{e9}\u{4e16}\u{1F431}",
    ] {
        v.push(s.as_bytes().to_vec());
    }
    v.sort();
    v.dedup();
    v
}

fn parts_light_cached(cache: &mut BTreeMap<usize, Vec<Vec<usize>>>, n: usize) -> &Vec<Vec<usize>> {
    cache.entry(n).or_insert_with(|| {
        if n <= 5 {
            let mut v = all_partitions(n);
            let mut e = vec![0usize];
            for _ in 0..n {
                e.push(1);
                e.push(0);
            }
            v.push(e);
            v
        } else {
            light_partitions(n)
        }
    })
}

pub fn worker(ctx: &Ctx, mut wc: WorkerCtx, _extra: &[String]) {
    let p = params(ctx.tier);
    let mut local = Local { viol: BTreeMap::new() };
    let mut case: u64 = 0;
    let mut unit: u64 = 0;
    let shard = wc.shard as u64;
    let shards = wc.shards as u64;
    let resume = wc.resume;
    let mut cache: BTreeMap<usize, Vec<Vec<usize>>> = BTreeMap::new();
    let whiches = [Which::Event, Which::Command, Which::Utf8];

    // ---- B: all byte strings up to bytes_len
    {
        let all: Vec<u8> = (0..=255u8).collect();
        for which in whiches {
            for first in 0..256usize {
                unit += 1;
                if unit % shards != shard {
                    continue;
                }
                let mut n = 0u64;
                for_strings(&all, first, p.bytes_len, &mut |s| {
                    case += 1;
                    if case <= resume {
                        return;
                    }
                    wc.begin_case(case, &descriptor(0, which, s, &[]));
                    n += 1;
                    let parts = parts_light_cached(&mut cache, s.len()).clone();
                    check_and_report(&mut wc, &mut local, which, s, &parts, "light", false);
                });
                wc.count("B_strings", n);
            }
        }
    }

    // ---- B4 (thorough): all strings of length 4 over one representative per global byte class
    // of the production event DFA (bytes of one class are indistinguishable to the automaton)
    if ctx.tier == Tier::Thorough {
        let reps: Vec<u8> = table(Which::Event).class_reps.clone();
        for first in 0..reps.len() {
            unit += 1;
            if unit % shards != shard {
                continue;
            }
            let mut n = 0u64;
            for_strings(&reps, first, 4, &mut |s| {
                case += 1;
                if case <= resume || s.len() < 4 {
                    return;
                }
                wc.begin_case(case, &descriptor(0, Which::Event, s, &[]));
                n += 1;
                check_and_report(&mut wc, &mut local, Which::Event, s, &[vec![4], vec![1, 1, 1, 1], vec![2, 2]], "light", false);
            });
            wc.count("B4_class_strings", n);
        }
    }

    // ---- U: UTF-8 lattice
    {
        let conts: [u8; 8] = [0x80, 0x8F, 0x90, 0x9F, 0xA0, 0xBF, 0x7F, 0xC0];
        for which in whiches {
            for lead in 0xC0..=0xFFu8 {
                unit += 1;
                if unit % shards != shard {
                    continue;
                }
                let mut n = 0u64;
                let mut seqs: Vec<Vec<u8>> = vec![vec![lead]];
                for len in 1..=3 {
                    let mut idx = vec![0usize; len];
                    loop {
                        let mut s = vec![lead];
                        s.extend(idx.iter().map(|i| conts[*i]));
                        seqs.push(s.clone());
                        s.push(b'a');
                        seqs.push(s);
                        let mut k = 0;
                        while k < len {
                            idx[k] += 1;
                            if idx[k] < conts.len() {
                                break;
                            }
                            idx[k] = 0;
                            k += 1;
                        }
                        if k == len {
                            break;
                        }
                    }
                }
                // selected leads followed by four bytes: what follows an invalid scalar value (or a
                // complete character) must be decoded from a clean state
                if [0xC3u8, 0xE0, 0xE2, 0xED, 0xF0, 0xF4, 0xF5].contains(&lead) {
                    for i in 0..conts.len().pow(4) {
                        let mut s = vec![lead];
                        let mut x = i;
                        for _ in 0..4 {
                            s.push(conts[x % conts.len()]);
                            x /= conts.len();
                        }
                        seqs.push(s);
                    }
                }
                for s in &seqs {
                    case += 1;
                    if case <= resume {
                        continue;
                    }
                    wc.begin_case(case, &descriptor(0, which, s, &[]));
                    n += 1;
                    let parts = parts_light_cached(&mut cache, s.len()).clone();
                    check_and_report(&mut wc, &mut local, which, s, &parts, "light", false);
                }
                wc.count("U_lattice", n);
            }
            // every scalar value, well-formed
            for block in 0..0x110u32 {
                unit += 1;
                if unit % shards != shard {
                    continue;
                }
                let mut n = 0u64;
                for cp in (block << 12)..((block + 1) << 12) {
                    let Some(c) = char::from_u32(cp) else { continue };
                    case += 1;
                    if case <= resume {
                        continue;
                    }
                    let mut buf = [0u8; 4];
                    let s = c.encode_utf8(&mut buf).as_bytes().to_vec();
                    wc.begin_case(case, &descriptor(0, which, &s, &[]));
                    n += 1;
                    let whole = vec![s.len()];
                    let singles = vec![1; s.len()];
                    for parts in [&whole, &singles] {
                        match catch(|| run_parts(which, &s, parts)) {
                            Err(pn) => local.add(
                                &mut wc,
                                format!("{}:{}", which.name(), pn.key()),
                                format!("{} decoder panicked on U+{:04X}: {}", which.name(), cp, pn.message),
                                string_witness(which, &s, "light"),
                            ),
                            Ok(run) => {
                                let ok = match (which, run.items.as_slice()) {
                                    (Which::Utf8, [Out::Char(d)]) => *d == c,
                                    (Which::Command, [Out::Command(TerminalCommand::Char(d))]) => *d == c,
                                    (Which::Command, _) if c == '\x1b' => true,
                                    (Which::Event, [Out::Event(TerminalEvent::Key(k))]) => {
                                        // printable characters and everything above ASCII decode to themselves;
                                        // C0 controls / DEL map to named keys through the fixed table (C04)
                                        if cp >= 0x20 && cp != 0x7f {
                                            k.name == KeyName::Char(c) && k.mode.is_empty()
                                        } else {
                                            true
                                        }
                                    }
                                    (Which::Event, []) if c == '\x1b' => true,
                                    // C0 controls that the key table does not name come out raw
                                    (Which::Event, [Out::Event(TerminalEvent::Raw(r))]) if cp < 0x20 => r == &s,
                                    _ => false,
                                };
                                if !ok || !run.problems.is_empty() {
                                    local.add(
                                        &mut wc,
                                        format!("{}:scalar-roundtrip", which.name()),
                                        format!(
                                            "{} decoder: well-formed U+{:04X} fed as {:?} decoded as {:?} {:?}",
                                            which.name(),
                                            cp,
                                            parts,
                                            run.items,
                                            run.problems
                                        ),
                                        string_witness(which, &s, "light"),
                                    );
                                }
                            }
                        }
                    }
                }
                wc.count("U_scalars", n);
            }
        }
    }

    // ---- H: hostile-token lattice
    {
        let tpls = templates();
        for (ti, t) in tpls.iter().enumerate() {
            let nf = t.pieces.len() - 1;
            let total = HOSTILE.len().pow(nf as u32);
            // shard by (template, first field)
            for f0 in 0..HOSTILE.len() {
                unit += 1;
                if unit % shards != shard {
                    continue;
                }
                let mut n = 0u64;
                let mut recognised = 0u64;
                let sub = total / HOSTILE.len();
                for rest in 0..sub {
                    case += 1;
                    if case <= resume {
                        continue;
                    }
                    let mut idx = vec![f0];
                    let mut r = rest;
                    for _ in 1..nf {
                        idx.push(r % HOSTILE.len());
                        r /= HOSTILE.len();
                    }
                    let fields: Vec<&str> = idx.iter().map(|i| HOSTILE[*i]).collect();
                    let s = render(t, &fields);
                    let extra: Vec<u8> = std::iter::once(ti as u8).chain(idx.iter().map(|i| *i as u8)).collect();
                    wc.begin_case(case, &descriptor(3, Which::Event, &[], &extra));
                    n += 1;
                    for which in [Which::Event, Which::Command] {
                        let parts = parts_light_cached(&mut cache, s.len()).clone();
                        check_and_report(&mut wc, &mut local, which, &s, &parts, "light", false);
                    }
                    // numeric fields
                    if let Ok(run) = catch(|| run_parts(Which::Event, &s, &[s.len()])) {
                        if matches!(run.items.first(), Some(Out::Event(e)) if !matches!(e, TerminalEvent::Raw(_))) {
                            recognised += 1;
                        }
                        if let Some(problem) = field_problem(t, &fields, run.items.first()) {
                            local.add(
                                &mut wc,
                                format!("event:numeric-field:{}", t.family),
                                format!("{} (input {:?})", problem, esc(&s)),
                                json!({"kind": "template", "template": ti, "fields": idx, "w_esc": esc(&s)}),
                            );
                        }
                    }
                }
                wc.count("H_tokens", n);
                wc.count("H_recognised", recognised);
            }
        }
        // fixed tokens
        for (i, s) in fixed_tokens().iter().enumerate() {
            unit += 1;
            if unit % shards != shard {
                continue;
            }
            case += 1;
            if case <= resume {
                continue;
            }
            let _ = i;
            wc.begin_case(case, &descriptor(0, Which::Event, &s[..s.len().min(200)], &[]));
            for which in [Which::Event, Which::Command] {
                let parts = if s.len() > 64 { vec![vec![s.len()], vec![1; s.len()]] } else { parts_light_cached(&mut cache, s.len()).clone() };
                check_and_report(&mut wc, &mut local, which, s, &parts, "light", false);
            }
            wc.count("H_fixed", 1);
        }
    }

    // ---- L: the fixed and base tokens once more in a process that has logging switched on (the library logs
    // through `tracing`; what a log line computes is computed only when a subscriber listens)
    {
        let mut tokens = fixed_tokens();
        tokens.extend(base_tokens());
        for s in tokens.iter() {
            unit += 1;
            if unit % shards != shard {
                continue;
            }
            case += 1;
            if case <= resume {
                continue;
            }
            wc.begin_case(case, &descriptor(0, Which::Event, &s[..s.len().min(200)], &[0xfe]));
            crate::engine::logging::with_logging(|| {
                for which in [Which::Event, Which::Command] {
                    let parts = vec![vec![s.len()], vec![1; s.len()]];
                    check_and_report(&mut wc, &mut local, which, s, &parts, "light+logging", false);
                }
            });
            wc.count("L_logged_tokens", 1);
        }
    }

    // ---- N: every value of one numeric field (value-dependent tables and arithmetic are invisible to the
    // automaton: a panic may sit behind a single number)
    {
        let top: u64 = if ctx.tier == Tier::Thorough { 0x11_0010 } else { 70_000 };
        for (ti, t) in NUMERIC_SWEEPS.iter().enumerate() {
            let pattern = t.replace("\\e", "\x1b");
            const BLOCK: u64 = 8192;
            let mut lo = 0u64;
            while lo <= top {
                unit += 1;
                let hi = (lo + BLOCK - 1).min(top);
                if unit % shards == shard {
                    let mut n = 0u64;
                    for v in lo..=hi {
                        case += 1;
                        if case <= resume {
                            continue;
                        }
                        let s = pattern.replace('#', &v.to_string()).into_bytes();
                        wc.begin_case(case, &descriptor(0, Which::Event, &s, &[ti as u8]));
                        n += 1;
                        for which in [Which::Event, Which::Command] {
                            check_and_report(&mut wc, &mut local, which, &s, &[vec![s.len()]], "light", false);
                        }
                        // the swept number as a decoded field
                        if let Some((family, generic, fixed)) = SWEEP_FIELDS[ti] {
                            let vs = v.to_string();
                            let fields: Vec<&str> = fixed.iter().map(|f| if *f == "#" { vs.as_str() } else { *f }).collect();
                            let tp = tpl(family, generic);
                            debug_assert_eq!(render(&tp, &fields), s);
                            if let Ok(run) = catch(|| run_parts(Which::Event, &s, &[s.len()])) {
                                if let Some(problem) = field_problem(&tp, &fields, run.items.first()) {
                                    local.add(
                                        &mut wc,
                                        format!("event:numeric-field:{}", family),
                                        format!("{} (input {:?})", problem, esc(&s)),
                                        json!({"kind": "sweep-field", "sweep": ti, "value": v, "w_esc": esc(&s)}),
                                    );
                                }
                            }
                        }
                    }
                    wc.count("N_values", n);
                }
                lo = hi + 1;
            }
        }
    }

    // ---- G: giant sequences: a string introducer, 64 KiB .. 1.1 MB of one byte value, then a tail that does
    // or does not terminate it (limits on sequence length are a favourite place for stale state)
    {
        let intros: [&[u8]; 6] = [b"\x1b[200~", b"\x1b]0;", b"\x1bP1$r", b"\x1b_Gi=1;", b"\x1b[", b"\x1b[<"];
        let fills: [u8; 4] = [b'a', 0x80, b'1', b';'];
        let lens: [usize; 5] = [65_535, 65_537, 1_048_575, 1_048_577, 1_100_000];
        let tails: [&[u8]; 5] = [b"", b"\xc3A", b"\x1b\\", b"\x80", b"\x1b[201~z"];
        for intro in intros {
            for fill in fills {
                for len in lens {
                    for tail in tails {
                        unit += 1;
                        if unit % shards != shard {
                            continue;
                        }
                        case += 1;
                        if case <= resume {
                            continue;
                        }
                        let mut s: Vec<u8> = intro.to_vec();
                        s.extend(std::iter::repeat(fill).take(len));
                        s.extend_from_slice(tail);
                        let mut head = intro.to_vec();
                        head.push(fill);
                        head.extend_from_slice(format!("x{len}").as_bytes());
                        head.extend_from_slice(tail);
                        wc.begin_case(case, &descriptor(0, Which::Event, &head, &[0xff]));
                        let n = s.len();
                        let mut chunks = vec![];
                        let mut left = n;
                        while left > 0 {
                            let c = left.min(65_536);
                            chunks.push(c);
                            left -= c;
                        }
                        check_and_report(&mut wc, &mut local, Which::Event, &s, &[vec![n], chunks], "long", false);
                        wc.count("G_giant_sequences", 1);
                    }
                }
            }
        }
    }

    // ---- E: edits of base tokens
    {
        let bases = base_tokens();
        let alpha = edit_alphabet();
        let small = small_edit_alphabet();
        for base in bases.iter() {
            unit += 1;
            if unit % shards != shard {
                continue;
            }
            let mut n1 = 0u64;
            let mut n2 = 0u64;
            let mut firsts: Vec<Vec<u8>> = vec![];
            single_edits(base, &alpha, &mut |s| {
                case += 1;
                if case <= resume {
                    return;
                }
                wc.begin_case(case, &descriptor(0, Which::Event, s, &[]));
                n1 += 1;
                let parts = parts_light_cached(&mut cache, s.len()).clone();
                check_and_report(&mut wc, &mut local, Which::Event, s, &parts, "light", false);
                check_and_report(&mut wc, &mut local, Which::Command, s, &[vec![s.len()], vec![1; s.len()]], "light", false);
            });
            if p.double_edits && base.len() <= 24 {
                single_edits(base, &small, &mut |s| firsts.push(s.to_vec()));
                for f in &firsts {
                    single_edits(f, &small, &mut |s| {
                        case += 1;
                        if case <= resume {
                            return;
                        }
                        wc.begin_case(case, &descriptor(0, Which::Event, s, &[]));
                        n2 += 1;
                        check_and_report(&mut wc, &mut local, Which::Event, s, &[vec![s.len()], vec![1; s.len()]], "light", false);
                    });
                }
            }
            wc.count("E_single_edits", n1);
            wc.count("E_double_edits", n2);
            wc.count("E_bases", 1);
        }
    }

    let finals: Vec<Violation> = local.viol.values().map(|(_, v)| v.clone()).collect();
    for v in finals {
        wc.violation(&v);
    }
    wc.finish();
}

fn describe_crash(desc: &[u8], how: &str) -> (String, String, Value) {
    let kind = desc[0];
    let which = which_from_u8(desc[1]);
    let wl = desc[2] as usize;
    let el = desc[3] as usize;
    let w = &desc[4..4 + wl];
    let extra = &desc[4 + wl..4 + wl + el];
    if kind == 3 {
        let ti = extra[0] as usize;
        let idx: Vec<usize> = extra[1..].iter().map(|b| *b as usize).collect();
        let t = &templates()[ti];
        let fields: Vec<&str> = idx.iter().map(|i| HOSTILE[*i]).collect();
        let s = render(t, &fields);
        return (
            format!("event:process-died:{}", t.family),
            format!("decoder killed or stalled the process on {:?} ({how})", esc(&s)),
            json!({"kind": "template", "template": ti, "fields": idx, "w_esc": esc(&s)}),
        );
    }
    (
        format!("{}:process-died", which.name()),
        format!("{} decoder killed or stalled the process on input {:?} ({how})", which.name(), esc(w)),
        string_witness(which, w, "light"),
    )
}

pub fn run(ctx: &Ctx) -> Result<Report, String> {
    let spec = workers::Spec {
        prop: "C02",
        tier: ctx.tier,
        seed: ctx.seed,
        shards: ctx.threads * 4,
        parallel: ctx.threads,
        extra_args: vec![],
        stall_timeout: Duration::from_secs(20),
        max_restarts_per_shard: 20,
        deadline: Instant::now() + Duration::from_secs_f64(ctx.wall_cap_s),
    };
    let merged = workers::run_shards(&spec, &describe_crash)?;
    let c = |k: &str| merged.counters.get(k).copied().unwrap_or(0);
    let evaluations: u64 = merged.counters.iter().filter(|(k, _)| *k != "H_recognised" && *k != "E_bases").map(|(_, v)| *v).sum();
    let p = params(ctx.tier);
    let mut r = Report::new("exploration");
    r.set("evaluations", evaluations)
        .set("distinct_nontrivial", c("H_tokens") + c("H_fixed") + c("N_values") + c("G_giant_sequences") + c("E_single_edits") + c("E_double_edits") + c("U_lattice"))
        .set(
            "rule",
            "every case is a distinct byte string (per decoder) fed whole, at every single cut, byte by byte and byte by byte with \
             empty reads (all partitions for length <= 5); B = all byte strings up to the stated length x 3 decoders; U = UTF-8 \
             boundary lattice + every scalar value; H = family templates x hostile number lattice^fields + fixed malformed tokens; N = 16 sequence shapes with one numeric field \
             taking every value 0..=70 000 (thorough: every value up to 0x110010; single read); \
             E = all single (thorough: double) byte edits of base tokens; non-trivial = escape-sequence shaped or malformed UTF-8 \
             inputs (H, E, U lattice)",
        )
        .set("counters", json!(merged.counters))
        .set("bounds", json!({"B_max_len": p.bytes_len, "double_edits": p.double_edits, "hostile_numbers": HOSTILE, "templates": templates().len(), "base_tokens": base_tokens().len()}))
        .set("exhaustive", !merged.capped)
        .set("capped", merged.capped)
        .set("worker_crashes", merged.crashes)
        .set(
            "samples",
            json!([
                {"space": "H", "template": "\\e[<#;#;#M", "fields": ["0", "18446744073709551616", ""]},
                {"space": "U", "bytes": "ed a0 80"},
                {"space": "E", "base": "\\e[?1000;1$y", "edit": "replace byte 3 by \\x80"},
                {"space": "B", "bytes": "1b 5b 75"},
            ]),
        );
    r.assume("numeric fields: exact value, the field type's maximum, or the sequence is unrecognised; an empty parameter may read as 0 or 1");
    r.assume("worker subprocesses: an abort or a 20 s stall is attributed to the published input and confirmed in a fresh process");
    r.violations = merged.violations;
    Ok(r)
}

pub fn replay(w: &Value) -> Result<(bool, String), String> {
    match w["kind"].as_str() {
        Some("template") => {
            let ti = w["template"].as_u64().ok_or("template")? as usize;
            let idx: Vec<usize> = w["fields"].as_array().ok_or("fields")?.iter().filter_map(|v| v.as_u64().map(|x| x as usize)).collect();
            let t = templates().get(ti).cloned().ok_or("template index")?;
            let fields: Vec<&str> = idx.iter().map(|i| HOSTILE[*i]).collect();
            let s = render(&t, &fields);
            let mut detail = format!("input {:?} fields {:?}\n", esc(&s), fields);
            let mut bad = false;
            for which in [Which::Event, Which::Command] {
                match check_string(which, &s, &light_partitions(s.len()), false) {
                    Ok(problems) => {
                        for p in &problems {
                            bad = true;
                            detail += &format!("  {} {}: {}\n", which.name(), p.kind, p.detail);
                        }
                    }
                    Err(p) => {
                        bad = true;
                        detail += &format!("  {} panic: {} ({}:{})\n", which.name(), p.message, p.file, p.line);
                    }
                }
            }
            if let Ok(run) = catch(|| run_parts(Which::Event, &s, &[s.len()])) {
                detail += &format!("decoded: {:?}\n", run.items);
                if let Some(p) = field_problem(&t, &fields, run.items.first()) {
                    bad = true;
                    detail += &format!("  numeric field: {p}\n");
                }
            }
            Ok((bad, detail))
        }
        Some("sweep-field") => {
            let ti = w["sweep"].as_u64().ok_or("sweep")? as usize;
            let v = w["value"].as_u64().ok_or("value")?;
            let (family, generic, fixed) = SWEEP_FIELDS.get(ti).copied().flatten().ok_or("sweep index")?;
            let vs = v.to_string();
            let fields: Vec<&str> = fixed.iter().map(|f| if *f == "#" { vs.as_str() } else { *f }).collect();
            let tp = tpl(family, generic);
            let s = render(&tp, &fields);
            let run = catch(|| run_parts(Which::Event, &s, &[s.len()])).map_err(|p| format!("panic: {}", p.message))?;
            let problem = field_problem(&tp, &fields, run.items.first());
            Ok((problem.is_some(), format!("input {:?} decoded {:?}: {:?}", esc(&s), run.items, problem)))
        }
        Some("string") => {
            let which = Which::from_name(w["which"].as_str().unwrap_or("")).ok_or("which")?;
            let s = unhex(w["w"].as_str().ok_or("w")?);
            let parts = if s.len() <= 5 { all_partitions(s.len()) } else { light_partitions(s.len()) };
            let logging = w["partitions"].as_str().map(|m| m.contains("logging")).unwrap_or(false);
            let mut detail = format!("input {:?} hex {}{}\n", esc(&s), hex(&s), if logging { " (with a tracing subscriber that listens to everything)" } else { "" });
            let checked = if logging { crate::engine::logging::with_logging(|| check_string(which, &s, &parts, false)) } else { check_string(which, &s, &parts, false) };
            match checked {
                Ok(problems) => {
                    for p in &problems {
                        detail += &format!("  {}: {}\n", p.kind, p.detail);
                    }
                    if problems.is_empty() {
                        detail += &format!("decoded: {:?}\n", run_parts(which, &s, &[s.len()]).items);
                    }
                    Ok((!problems.is_empty(), detail))
                }
                Err(p) => Ok((true, format!("{detail}panic: {} ({}:{})", p.message, p.file, p.line))),
            }
        }
        _ => Err("unknown witness kind".into()),
    }
}
