//! reference model `b64` (filled in by the property that needs it)
