//! Reference model `b64`: RFC 4648 section 4 ("base64", standard alphabet, with padding),
//! written from the RFC text; no library code.
//!
//! * Table 1: values 0..25 = 'A'..'Z', 26..51 = 'a'..'z', 52..61 = '0'..'9', 62 = '+', 63 = '/'.
//! * 24-bit groups of three input bytes become four characters, most significant six bits
//!   first; a final group of one byte becomes two characters + "==", of two bytes three
//!   characters + "=" (unused low bits are zero).

/// Table 1 of RFC 4648, built from its description rather than copied as a string.
pub fn alphabet() -> [u8; 64] {
    let mut t = [0u8; 64];
    for i in 0..26 {
        t[i] = b'A' + i as u8;
        t[26 + i] = b'a' + i as u8;
    }
    for i in 0..10 {
        t[52 + i] = b'0' + i as u8;
    }
    t[62] = b'+';
    t[63] = b'/';
    t
}

fn value_of(c: u8) -> Option<u32> {
    match c {
        b'A'..=b'Z' => Some((c - b'A') as u32),
        b'a'..=b'z' => Some((c - b'a') as u32 + 26),
        b'0'..=b'9' => Some((c - b'0') as u32 + 52),
        b'+' => Some(62),
        b'/' => Some(63),
        _ => None,
    }
}

/// Encode one group of 1..=3 bytes into four characters.
pub fn encode_group(group: &[u8]) -> [u8; 4] {
    assert!((1..=3).contains(&group.len()));
    let t = alphabet();
    let mut bits: u32 = 0;
    for i in 0..3 {
        bits = (bits << 8) | *group.get(i).unwrap_or(&0) as u32;
    }
    let mut out = [b'='; 4];
    let chars = group.len() + 1; // 1 byte -> 2 chars, 2 -> 3, 3 -> 4
    for (i, o) in out.iter_mut().enumerate().take(chars) {
        *o = t[((bits >> (18 - 6 * i)) & 63) as usize];
    }
    out
}

pub fn encode(data: &[u8]) -> Vec<u8> {
    let mut out = Vec::with_capacity(data.len().div_ceil(3) * 4);
    for g in data.chunks(3) {
        out.extend_from_slice(&encode_group(g));
    }
    out
}

#[derive(Debug, Clone, PartialEq, Eq)]
pub enum DecodeError {
    Length,
    Symbol(usize),
    Padding(usize),
    NonCanonical(usize),
}

/// Strict decoder: length multiple of four, alphabet symbols only, padding only as the last
/// one or two characters, unused bits zero.
pub fn decode(text: &[u8]) -> Result<Vec<u8>, DecodeError> {
    if text.len() % 4 != 0 {
        return Err(DecodeError::Length);
    }
    let mut out = Vec::with_capacity(text.len() / 4 * 3);
    let groups = text.len() / 4;
    for (gi, g) in text.chunks(4).enumerate() {
        let pad = if g[3] == b'=' { if g[2] == b'=' { 2 } else { 1 } } else { 0 };
        if pad > 0 && gi + 1 != groups {
            return Err(DecodeError::Padding(gi * 4));
        }
        let mut bits = 0u32;
        for (i, c) in g.iter().enumerate() {
            let v = if i >= 4 - pad {
                0
            } else {
                match value_of(*c) {
                    Some(v) => v,
                    None if *c == b'=' => return Err(DecodeError::Padding(gi * 4 + i)),
                    None => return Err(DecodeError::Symbol(gi * 4 + i)),
                }
            };
            bits = (bits << 6) | v;
        }
        let bytes = [(bits >> 16) as u8, (bits >> 8) as u8, bits as u8];
        let n = 3 - pad;
        if bytes[n..].iter().any(|b| *b != 0) {
            return Err(DecodeError::NonCanonical(gi * 4));
        }
        out.extend_from_slice(&bytes[..n]);
    }
    Ok(out)
}

/// Incremental view of the encoder: what must have been emitted after each byte.
#[derive(Debug, Clone, Default)]
pub struct IncEncoder {
    pub carry: Vec<u8>,
}

impl IncEncoder {
    /// feed one byte, return the characters that become determined by it
    pub fn push(&mut self, b: u8) -> Vec<u8> {
        self.carry.push(b);
        if self.carry.len() == 3 {
            let out = encode_group(&self.carry).to_vec();
            self.carry.clear();
            out
        } else {
            vec![]
        }
    }
    /// characters emitted by finishing now
    pub fn finish(&self) -> Vec<u8> {
        if self.carry.is_empty() {
            vec![]
        } else {
            encode_group(&self.carry).to_vec()
        }
    }
}

/// Compare `encode` with CPython's base64 module; returns number of compared strings
/// (0 when python3 is not available).
pub fn validate_against_cpython() -> Result<u64, String> {
    let script = r#"
import base64,sys
out=[]
for n in range(0,70):
    d=bytes((37*i+11)&255 for i in range(n))
    out.append(base64.b64encode(d).decode())
for b in range(256):
    out.append(base64.b64encode(bytes([b])).decode())
    out.append(base64.b64encode(bytes([b,255-b])).decode())
    out.append(base64.b64encode(bytes([255-b,b,(b*7)&255])).decode())
sys.stdout.write("\n".join(out))
"#;
    let out = match std::process::Command::new("python3").arg("-c").arg(script).output() {
        Ok(o) => o,
        Err(_) => return Ok(0),
    };
    if !out.status.success() {
        return Err(format!("python3 failed: {}", String::from_utf8_lossy(&out.stderr)));
    }
    let text = String::from_utf8_lossy(&out.stdout).to_string();
    let mut expect: Vec<Vec<u8>> = vec![];
    for n in 0..70usize {
        expect.push((0..n).map(|i| ((37 * i + 11) & 255) as u8).collect());
    }
    for b in 0..=255u8 {
        expect.push(vec![b]);
        expect.push(vec![b, 255 - b]);
        expect.push(vec![255 - b, b, (b as u32 * 7 & 255) as u8]);
    }
    // the first line is empty (n = 0), so split manually
    let lines: Vec<&str> = text.split('\n').collect();
    if lines.len() != expect.len() {
        return Err(format!("python3 produced {} lines, expected {}", lines.len(), expect.len()));
    }
    for (d, l) in expect.iter().zip(lines) {
        if encode(d) != l.as_bytes() {
            return Err(format!("reference base64 disagrees with CPython on {:?}: {:?} vs {:?}", d, String::from_utf8_lossy(&encode(d)), l));
        }
        if decode(l.as_bytes()).as_deref() != Ok(&d[..]) {
            return Err(format!("reference base64 decoder disagrees with CPython on {:?}", l));
        }
    }
    Ok(expect.len() as u64)
}

#[cfg(test)]
mod tests {
    use super::*;
    #[test]
    fn rfc_vectors() {
        // RFC 4648 section 10
        for (d, e) in [("", ""), ("f", "Zg=="), ("fo", "Zm8="), ("foo", "Zm9v"), ("foob", "Zm9vYg=="), ("fooba", "Zm9vYmE="), ("foobar", "Zm9vYmFy")] {
            assert_eq!(encode(d.as_bytes()), e.as_bytes());
            assert_eq!(decode(e.as_bytes()).unwrap(), d.as_bytes());
        }
    }
}
