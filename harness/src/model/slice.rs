//! Python / NumPy slice resolution (step 1) in i128, written from the language reference
//! (`slice.indices`), not from the library.

/// Selector forms of the property.
#[derive(Debug, Clone, Copy, PartialEq, Eq, Hash, PartialOrd, Ord)]
pub enum Form {
    Index,       // i
    Range,       // a..b
    From,        // a..
    To,          // ..b
    Inclusive,   // a..=b
    ToInclusive, // ..=b
    Full,        // ..
}

impl Form {
    pub const ALL: [Form; 7] = [
        Form::Index,
        Form::Range,
        Form::From,
        Form::To,
        Form::Inclusive,
        Form::ToInclusive,
        Form::Full,
    ];
    pub fn name(self) -> &'static str {
        match self {
            Form::Index => "i",
            Form::Range => "a..b",
            Form::From => "a..",
            Form::To => "..b",
            Form::Inclusive => "a..=b",
            Form::ToInclusive => "..=b",
            Form::Full => "..",
        }
    }
    pub fn uses_a(self) -> bool {
        matches!(self, Form::Index | Form::Range | Form::From | Form::Inclusive)
    }
    pub fn uses_b(self) -> bool {
        matches!(self, Form::Range | Form::To | Form::Inclusive | Form::ToInclusive)
    }
}

fn norm(v: Option<i128>, n: i128, default: i128) -> i128 {
    match v {
        None => default,
        Some(mut v) => {
            if v < 0 {
                v += n;
                if v < 0 {
                    v = 0;
                }
            } else if v > n {
                v = n;
            }
            v
        }
    }
}

/// `range(*slice(start, stop).indices(n))` non-empty => Some((start, stop))
pub fn py_slice(start: Option<i128>, stop: Option<i128>, n: i128) -> Option<(i128, i128)> {
    let s = norm(start, n, 0);
    let e = norm(stop, n, n);
    if s < e {
        Some((s, e))
    } else {
        None
    }
}

/// Resolve a selector against an axis of length `n`.
pub fn resolve(form: Form, a: i128, b: i128, n: i128) -> Option<(i128, i128)> {
    // an inclusive end `b` means "one past element b": the python stop is b+1, except for
    // b == -1 (the last element) whose "one past" is the end of the axis (python's None).
    let incl = |b: i128| if b == -1 { None } else { Some(b + 1) };
    match form {
        Form::Index => {
            let i = if a < 0 { a + n } else { a };
            if i >= 0 && i < n {
                Some((i, i + 1))
            } else {
                None
            }
        }
        Form::Range => py_slice(Some(a), Some(b), n),
        Form::From => py_slice(Some(a), None, n),
        Form::To => py_slice(None, Some(b), n),
        Form::Inclusive => py_slice(Some(a), incl(b), n),
        Form::ToInclusive => py_slice(None, incl(b), n),
        Form::Full => py_slice(None, None, n),
    }
}
