//! reference model `kernel` (filled in by the property that needs it)
