//! C04 reference: what a terminal sends, and what those bytes denote.
//!
//! Two parts, both free of the library's code:
//!
//! 1. **Golden naming tables** (transcribed ONCE from the library, because the property makes
//!    the library's fixed naming table part of the specification): the legacy key table
//!    (`legacy_keys`), the SGR-mouse button naming (`mouse_button_name`) and the RGB values of
//!    the sixteen basic palette entries (`BASIC16`). They are data, not logic: every row is
//!    spelled out or produced by the xterm modifier rule `param = 1 + mask`.
//!
//! 2. **Printers** written from xterm ctlseqs ("Mouse Tracking", "Device-Control functions",
//!    "Operating System Commands", CPR, XTWINOPS, DECRPM, DA1, DECRPSS, XTGETTCAP), the kitty
//!    keyboard protocol ("CSI unicode-key-code:alternate-key-codes ; modifiers u", functional key
//!    table, `CSI ? flags u`), the kitty graphics protocol (`APC G i=..,p=.. ; msg ST`),
//!    bracketed paste (`CSI 200 ~ text CSI 201 ~`), ECMA-48 / ISO-8613-6 SGR: given the *intended*
//!    event they produce the bytes a terminal sends.
//!
//! Everything is expressed in model types (`Ev`, ...) so nothing here depends on `surf_n_term`.
use serde::{Deserialize, Serialize};
use std::collections::{BTreeMap, BTreeSet};

// ---------------------------------------------------------------------------------------------
// model event types
// ---------------------------------------------------------------------------------------------

/// modifier bits; the numbering is the one of xterm (`param - 1`: shift 1, alt 2, ctrl 4) and its
/// kitty extension (super 8, hyper 16, meta 32, caps_lock 64, num_lock 128); PRESS is the
/// library's marker for the `M` final of an SGR mouse report.
pub const SHIFT: u32 = 1;
pub const ALT: u32 = 2;
pub const CTRL: u32 = 4;
pub const SUPER: u32 = 8;
pub const HYPER: u32 = 16;
pub const META: u32 = 32;
pub const CAPS: u32 = 64;
pub const NUM: u32 = 128;
pub const PRESS: u32 = 256;

#[derive(Debug, Clone, Copy, PartialEq, Eq, Hash, PartialOrd, Ord, Serialize, Deserialize)]
pub enum KName {
    Backspace,
    Char(char),
    Delete,
    Insert,
    Down,
    End,
    Enter,
    Esc,
    F(usize),
    Home,
    Left,
    MouseLeft,
    MouseMiddle,
    MouseMove,
    MouseRight,
    MouseWheelDown,
    MouseWheelUp,
    PageDown,
    PageUp,
    Right,
    Tab,
    Up,
}

#[derive(Debug, Clone, Copy, PartialEq, Eq, Hash, PartialOrd, Ord, Serialize, Deserialize)]
pub enum UStyle {
    None,
    Straight,
    Double,
    Curly,
    Dotted,
    Dashed,
}

#[derive(Debug, Clone, Copy, PartialEq, Eq, Hash, PartialOrd, Ord, Serialize, Deserialize)]
pub enum ColorName {
    Background,
    Foreground,
    Palette(usize),
}

pub type Rgb = [u8; 3];

/// A face modification record (what one SGR sequence denotes)
#[derive(Debug, Clone, Copy, PartialEq, Eq, Hash, PartialOrd, Ord, Default, Serialize, Deserialize)]
pub struct MModify {
    pub reset: bool,
    pub fg: Option<Rgb>,
    pub bg: Option<Rgb>,
    pub underline: Option<UStyle>,
    pub underline_color: Option<Rgb>,
    pub bold: Option<bool>,
    pub italic: Option<bool>,
    pub blink: Option<bool>,
    pub strike: Option<bool>,
}

/// A complete face (what a DECRPSS SGR report denotes, starting from the default face)
#[derive(Debug, Clone, Copy, PartialEq, Eq, Hash, PartialOrd, Ord, Serialize, Deserialize)]
pub struct MFace {
    pub fg: Option<Rgb>,
    pub bg: Option<Rgb>,
    pub underline: UStyle,
    pub bold: bool,
    pub italic: bool,
    pub blink: bool,
    pub reverse: bool,
    pub strike: bool,
}

#[derive(Debug, Clone, PartialEq, Eq, Hash, PartialOrd, Ord, Serialize, Deserialize)]
pub enum Ev {
    Key { name: KName, mods: u32 },
    Mouse { name: KName, mods: u32, row: usize, col: usize },
    CursorPosition { row: usize, col: usize },
    Size { cells_h: usize, cells_w: usize, px_h: usize, px_w: usize },
    /// mode = DEC private mode number, status = Ps of DECRPM
    DecMode { mode: usize, status: usize },
    DeviceAttrs(BTreeSet<usize>),
    /// each component: the two acceptable 8-bit values (most significant byte, and nearest
    /// scaling) - equal except for 12/16-bit components that are not byte replications
    Color { name: ColorName, comps: [(u8, u8); 3], alpha: u8 },
    Termcap(BTreeMap<String, Option<String>>),
    KeyboardLevel(usize),
    KittyImage { id: u64, placement: Option<u64>, error: Option<String> },
    Paste(String),
    FaceGet(MFace),
    FaceModify(MModify),
    /// unrecognised bytes (never an expected value)
    Raw(Vec<u8>),
    /// an event the model has no name for (never an expected value)
    Other(String),
}

impl Ev {
    pub fn key(name: KName, mods: u32) -> Ev {
        Ev::Key { name, mods }
    }
    pub fn ch(c: char) -> Ev {
        Ev::Key { name: KName::Char(c), mods: 0 }
    }
    /// expected == observed (colour components: observed must be one of the two allowed values;
    /// an observed colour is carried as `(v, v)`)
    pub fn accepts(&self, observed: &Ev) -> bool {
        match (self, observed) {
            (
                Ev::Color { name, comps, alpha },
                Ev::Color { name: oname, comps: ocomps, alpha: oalpha },
            ) => {
                name == oname
                    && alpha == oalpha
                    && (0..3).all(|i| ocomps[i].0 == ocomps[i].1 && (ocomps[i].0 == comps[i].0 || ocomps[i].0 == comps[i].1))
            }
            (a, b) => a == b,
        }
    }
}

// ---------------------------------------------------------------------------------------------
// golden table 1: legacy keys
// ---------------------------------------------------------------------------------------------

#[derive(Debug, Clone)]
pub struct KeyRow {
    pub group: &'static str,
    pub bytes: Vec<u8>,
    pub name: KName,
    pub mods: u32,
    /// the bytes are a proper prefix of other well-formed sequences (ESC; the 7-bit introducers
    /// CSI `ESC [`, SS3 `ESC O`, DCS `ESC P`, OSC `ESC ]`, APC `ESC _`): the key can only be
    /// reported once following input rules the longer reading out
    pub prefix: bool,
}

/// `CSI <code> ~` keys (xterm/rxvt numbering as the library names them)
pub const TILDE_KEYS: [(&str, KName); 20] = [
    ("1", KName::Home),
    ("2", KName::Insert),
    ("3", KName::Delete),
    ("4", KName::End),
    ("5", KName::PageUp),
    ("6", KName::PageDown),
    ("7", KName::Insert), // sic: the library names `CSI 7 ~` insert (rxvt sends it for home)
    ("8", KName::End),
    ("11", KName::F(1)),
    ("12", KName::F(2)),
    ("13", KName::F(3)),
    ("14", KName::F(4)),
    ("15", KName::F(5)),
    ("17", KName::F(6)),
    ("18", KName::F(7)),
    ("19", KName::F(8)),
    ("20", KName::F(9)),
    ("21", KName::F(10)),
    ("23", KName::F(11)),
    ("24", KName::F(12)),
];

/// `CSI <letter>` / `CSI 1 ; <mod> <letter>` keys
pub const LETTER_KEYS: [(u8, KName); 10] = [
    (b'A', KName::Up),
    (b'B', KName::Down),
    (b'C', KName::Right),
    (b'D', KName::Left),
    (b'F', KName::End),
    (b'H', KName::Home),
    (b'P', KName::F(1)),
    (b'Q', KName::F(2)),
    (b'R', KName::F(3)),
    (b'S', KName::F(4)),
];

/// `SS3 <letter>` keys
pub const SS3_KEYS: [(u8, KName); 4] = [(b'P', KName::F(1)), (b'Q', KName::F(2)), (b'R', KName::F(3)), (b'S', KName::F(4))];

/// the 32 ASCII punctuation characters
pub const PUNCTUATION: &str = "!\"#$%&'()*+,-./:;<=>?@[\\]^_`{|}~";

/// The whole legacy key table, one row per distinct byte sequence.
pub fn legacy_keys() -> Vec<KeyRow> {
    let mut rows = Vec::new();
    let mut push = |group: &'static str, bytes: Vec<u8>, name: KName, mods: u32| {
        let prefix = matches!(bytes.as_slice(), b"\x1b" | b"\x1b[" | b"\x1bO" | b"\x1bP" | b"\x1b]" | b"\x1b_");
        rows.push(KeyRow { group, bytes, name, mods, prefix });
    };
    push("single", vec![0x1b], KName::Esc, 0);
    push("single", vec![0x7f], KName::Backspace, 0);
    push("single", vec![0x00], KName::Char(' '), CTRL);
    // C0 controls 0x01..=0x1a are ctrl+letter (so TAB is ctrl+i, CR is ctrl+m, LF ctrl+j, BS ctrl+h)
    for (i, c) in ('a'..='z').enumerate() {
        push("ctrl-letter", vec![i as u8 + 1], KName::Char(c), CTRL);
    }
    // meta-sends-escape
    for c in 'a'..='z' {
        push("alt-lower", vec![0x1b, c as u8], KName::Char(c), ALT);
    }
    for c in 'A'..='Z' {
        push("alt-upper", vec![0x1b, c as u8], KName::Char(c.to_ascii_lowercase()), ALT | SHIFT);
    }
    for c in PUNCTUATION.chars() {
        push("alt-punct", vec![0x1b, c as u8], KName::Char(c), ALT);
    }
    for c in '0'..='9' {
        push("alt-digit", vec![0x1b, c as u8], KName::Char(c), ALT);
    }
    // CSI code ~ and CSI code ; mod ~   (xterm: mod = 1 + mask, mask over shift|alt|ctrl)
    for (code, name) in TILDE_KEYS {
        push("tilde", format!("\x1b[{code}~").into_bytes(), name, 0);
        for mask in 1..=7u32 {
            push("tilde-mod", format!("\x1b[{code};{}~", mask + 1).into_bytes(), name, mask);
        }
    }
    for (letter, name) in LETTER_KEYS {
        push("csi-letter", vec![0x1b, b'[', letter], name, 0);
        for mask in 1..=7u32 {
            let mut b = format!("\x1b[1;{}", mask + 1).into_bytes();
            b.push(letter);
            push("csi-letter-mod", b, name, mask);
        }
    }
    for (letter, name) in SS3_KEYS {
        push("ss3", vec![0x1b, b'O', letter], name, 0);
    }
    rows
}

// ---------------------------------------------------------------------------------------------
// golden table 2: SGR mouse button naming (library's names for xterm button codes)
// ---------------------------------------------------------------------------------------------

/// Name for the button code `Pb` of `CSI < Pb ; Px ; Py M|m`, codes 0..=127.
/// xterm: low two bits = button (3 = none), +4 shift, +8 meta, +16 control, +32 motion,
/// +64 = buttons 4/5 (wheel). The library's naming: wheel code 64 -> MouseWheelDown,
/// 65 -> MouseWheelUp (sic), 66/67 -> MouseMove; without bit 6: left, middle, right, move.
pub fn mouse_button_name(code: u32) -> KName {
    const PLAIN: [KName; 4] = [KName::MouseLeft, KName::MouseMiddle, KName::MouseRight, KName::MouseMove];
    const WHEEL: [KName; 4] = [KName::MouseWheelDown, KName::MouseWheelUp, KName::MouseMove, KName::MouseMove];
    if code & 64 != 0 {
        WHEEL[(code & 3) as usize]
    } else {
        PLAIN[(code & 3) as usize]
    }
}

/// xterm: 4 = shift, 8 = meta, 16 = control
pub fn mouse_mods(code: u32) -> u32 {
    let mut m = 0;
    if code & 4 != 0 {
        m |= SHIFT;
    }
    if code & 8 != 0 {
        m |= ALT;
    }
    if code & 16 != 0 {
        m |= CTRL;
    }
    m
}

// ---------------------------------------------------------------------------------------------
// golden table 3: the sixteen basic colours; 16..=255 follow the xterm formula
// ---------------------------------------------------------------------------------------------

pub const BASIC16: [Rgb; 16] = [
    [0, 0, 0],
    [128, 0, 0],
    [0, 128, 0],
    [128, 128, 0],
    [0, 0, 128],
    [128, 0, 128],
    [0, 128, 128],
    [192, 192, 192],
    [128, 128, 128],
    [255, 0, 0],
    [0, 255, 0],
    [255, 255, 0],
    [0, 0, 255],
    [255, 0, 255],
    [0, 255, 255],
    [255, 255, 255],
];

/// xterm 256-colour palette: 16..=231 is the 6x6x6 cube with levels 0,95,135,175,215,255
/// (`level = 0 if i == 0 else 55 + 40 i`), 232..=255 the grey ramp `8 + 10 i`.
pub fn palette256(n: u8) -> Rgb {
    let n = n as usize;
    if n < 16 {
        BASIC16[n]
    } else if n < 232 {
        let i = n - 16;
        let level = |k: usize| if k == 0 { 0u8 } else { (55 + 40 * k) as u8 };
        [level(i / 36), level(i / 6 % 6), level(i % 6)]
    } else {
        let v = (8 + 10 * (n - 232)) as u8;
        [v, v, v]
    }
}

// ---------------------------------------------------------------------------------------------
// printers
// ---------------------------------------------------------------------------------------------

pub const ST: &[u8] = b"\x1b\\";
pub const BEL: &[u8] = b"\x07";

/// xterm SGR (1006) mouse report: `CSI < Pb ; Px ; Py M` (press/motion) or `m` (release);
/// Px = column, Py = row, both 1-based.
pub fn print_mouse(code: u32, col1: usize, row1: usize, press: bool) -> (Vec<u8>, Ev) {
    let bytes = format!("\x1b[<{code};{col1};{row1}{}", if press { 'M' } else { 'm' }).into_bytes();
    let ev = Ev::Mouse {
        name: mouse_button_name(code),
        mods: mouse_mods(code) | if press { PRESS } else { 0 },
        row: row1 - 1,
        col: col1 - 1,
    };
    (bytes, ev)
}

/// CPR: `CSI Pl ; Pc R`, 1-based line and column
pub fn print_cursor_report(row1: usize, col1: usize) -> (Vec<u8>, Ev) {
    (format!("\x1b[{row1};{col1}R").into_bytes(), Ev::CursorPosition { row: row1 - 1, col: col1 - 1 })
}

/// XTWINOPS replies to `CSI 18 t` and `CSI 14 t`: `CSI 8 ; height ; width t` (characters)
/// followed by `CSI 4 ; height ; width t` (pixels)
pub fn print_text_area(cells_h: usize, cells_w: usize, px_h: usize, px_w: usize) -> (Vec<u8>, Ev) {
    (
        format!("\x1b[8;{cells_h};{cells_w}t\x1b[4;{px_h};{px_w}t").into_bytes(),
        Ev::Size { cells_h, cells_w, px_h, px_w },
    )
}

/// DEC private modes the library knows (number = the mode's DECSET number)
pub const DEC_MODES: [usize; 9] = [25, 7, 80, 1000, 1003, 1006, 1049, 2026, 2004];

/// DECRPM: `CSI ? Pd ; Ps $ y`, Ps: 0 not recognised, 1 set, 2 reset, 3 permanently set,
/// 4 permanently reset
pub fn print_decrpm(mode: usize, status: usize) -> (Vec<u8>, Ev) {
    (format!("\x1b[?{mode};{status}$y").into_bytes(), Ev::DecMode { mode, status })
}

/// DA1: `CSI ? Ps ; ... c`; some terminals terminate the list with `;`
pub fn print_da1(attrs: &[usize], trailing_semicolon: bool) -> (Vec<u8>, Ev) {
    let list: Vec<String> = attrs.iter().map(|a| a.to_string()).collect();
    let mut s = format!("\x1b[?{}", list.join(";"));
    if trailing_semicolon {
        s.push(';');
    }
    s.push('c');
    (s.into_bytes(), Ev::DeviceAttrs(attrs.iter().copied().collect()))
}

/// One `rgb:` component of 1..=4 hex digits (XParseColor: an n-digit value v means v / (16^n - 1))
#[derive(Debug, Clone, Copy, PartialEq, Eq, Hash)]
pub struct HexComp {
    pub digits: u32,
    pub value: u32,
}

impl HexComp {
    pub fn text(&self, upper: bool) -> String {
        let w = self.digits as usize;
        if upper {
            format!("{:0w$X}", self.value)
        } else {
            format!("{:0w$x}", self.value)
        }
    }
    /// acceptable 8-bit readings: the most significant byte (what terminals replicate from) and
    /// the nearest value of v * 255 / (16^n - 1); for 1 and 2 digits both are exact and equal
    pub fn eight_bit(&self) -> (u8, u8) {
        let max = (1u32 << (4 * self.digits)) - 1;
        let nearest = ((self.value * 255 * 2 + max) / (2 * max)) as u8;
        let msb = match self.digits {
            1 => (self.value * 17) as u8,
            2 => self.value as u8,
            3 => (self.value >> 4) as u8,
            _ => (self.value >> 8) as u8,
        };
        (msb, nearest)
    }
}

/// colour specification of an OSC 4/10/11 reply
#[derive(Debug, Clone)]
pub enum ColorSpec {
    /// `rgb:R/G/B`
    Rgb([HexComp; 3], bool),
    /// `#rrggbb`
    Hash(Rgb, bool),
}

/// OSC 4 ; index ; spec, OSC 10 ; spec (foreground), OSC 11 ; spec (background); BEL or ST
pub fn print_osc_color(name: ColorName, spec: &ColorSpec, st: bool) -> (Vec<u8>, Ev) {
    let (text, comps) = match spec {
        ColorSpec::Rgb(c, upper) => (
            format!("rgb:{}/{}/{}", c[0].text(*upper), c[1].text(*upper), c[2].text(*upper)),
            [c[0].eight_bit(), c[1].eight_bit(), c[2].eight_bit()],
        ),
        ColorSpec::Hash(c, upper) => (
            if *upper {
                format!("#{:02X}{:02X}{:02X}", c[0], c[1], c[2])
            } else {
                format!("#{:02x}{:02x}{:02x}", c[0], c[1], c[2])
            },
            [(c[0], c[0]), (c[1], c[1]), (c[2], c[2])],
        ),
    };
    let head = match name {
        ColorName::Foreground => "10".to_string(),
        ColorName::Background => "11".to_string(),
        ColorName::Palette(i) => format!("4;{i}"),
    };
    let mut b = format!("\x1b]{head};{text}").into_bytes();
    b.extend_from_slice(if st { ST } else { BEL });
    (b, Ev::Color { name, comps, alpha: 255 })
}

fn hex_encode(s: &str, upper: bool) -> String {
    s.bytes().map(|b| if upper { format!("{b:02X}") } else { format!("{b:02x}") }).collect()
}

/// XTGETTCAP reply: `DCS 1 + r name=value ; ... ST` (valid) or `DCS 0 + r name ; ... ST` (invalid),
/// names and values hex encoded
pub fn print_xtgettcap(ok: bool, pairs: &[(&str, &str)], upper: bool) -> (Vec<u8>, Ev) {
    let items: Vec<String> = pairs
        .iter()
        .map(|(k, v)| if ok { format!("{}={}", hex_encode(k, upper), hex_encode(v, upper)) } else { hex_encode(k, upper) })
        .collect();
    let mut b = format!("\x1bP{}+r{}", if ok { 1 } else { 0 }, items.join(";")).into_bytes();
    b.extend_from_slice(ST);
    let map = pairs
        .iter()
        .map(|(k, v)| (k.to_string(), if ok { Some(v.to_string()) } else { None }))
        .collect();
    (b, Ev::Termcap(map))
}

/// kitty functional key codes the library has a name for: 27 ESCAPE, 13 ENTER, 9 TAB,
/// 127 BACKSPACE, 57376..=57398 F13..F35; every other code outside the private use area
/// 57344..=63743 is the Unicode code point of the key. `None`: a functional key the naming
/// table has no entry for (the property is silent about it).
pub fn kitty_key_name(code: u32) -> Option<KName> {
    Some(match code {
        27 => KName::Esc,
        13 => KName::Enter,
        9 => KName::Tab,
        127 => KName::Backspace,
        57376..=57398 => KName::F((code - 57376 + 13) as usize),
        57344..=63743 => return None,
        _ => KName::Char(char::from_u32(code)?),
    })
}

/// kitty keyboard: `CSI code[:shifted[:base]] [; mods] u`, mods = 1 + mask
pub fn print_kitty_key(code: u32, shifted: Option<u32>, base: Option<u32>, mods_param: Option<u32>) -> Option<(Vec<u8>, Ev)> {
    let name = kitty_key_name(code)?;
    let mut s = format!("\x1b[{code}");
    match (shifted, base) {
        (Some(sh), None) => s.push_str(&format!(":{sh}")),
        (None, Some(b)) => s.push_str(&format!("::{b}")),
        (Some(sh), Some(b)) => s.push_str(&format!(":{sh}:{b}")),
        (None, None) => {}
    }
    if let Some(m) = mods_param {
        s.push_str(&format!(";{m}"));
    }
    s.push('u');
    let mods = mods_param.map(|m| m - 1).unwrap_or(0);
    Some((s.into_bytes(), Ev::Key { name, mods }))
}

/// reply to `CSI ? u`: `CSI ? flags u`
pub fn print_kitty_level(flags: usize) -> (Vec<u8>, Ev) {
    (format!("\x1b[?{flags}u").into_bytes(), Ev::KeyboardLevel(flags))
}

/// kitty graphics response: `APC G i=<id>[,p=<placement>][,<extra>] ; OK|<error> ST`
pub fn print_kitty_image(id: u64, placement: Option<u64>, extra: Option<&str>, message: &str) -> (Vec<u8>, Ev) {
    let mut s = format!("\x1b_Gi={id}");
    if let Some(p) = placement {
        s.push_str(&format!(",p={p}"));
    }
    if let Some(e) = extra {
        s.push(',');
        s.push_str(e);
    }
    s.push(';');
    s.push_str(message);
    let mut b = s.into_bytes();
    b.extend_from_slice(ST);
    let error = if message == "OK" { None } else { Some(message.to_string()) };
    (b, Ev::KittyImage { id, placement, error })
}

/// bracketed paste: `CSI 200 ~ text CSI 201 ~`
pub fn print_paste(text: &str) -> (Vec<u8>, Ev) {
    let mut b = b"\x1b[200~".to_vec();
    b.extend_from_slice(text.as_bytes());
    b.extend_from_slice(b"\x1b[201~");
    (b, Ev::Paste(text.to_string()))
}

pub fn print_text(c: char) -> (Vec<u8>, Ev) {
    let mut buf = [0u8; 4];
    (c.encode_utf8(&mut buf).as_bytes().to_vec(), Ev::ch(c))
}

// ---------------------------------------------------------------------------------------------
// SGR
// ---------------------------------------------------------------------------------------------

#[derive(Debug, Clone, Copy, PartialEq, Eq, Hash, Serialize, Deserialize)]
pub enum Target {
    Fg,
    Bg,
    Ul,
}

impl Target {
    pub const ALL: [Target; 3] = [Target::Fg, Target::Bg, Target::Ul];
    fn code(self) -> u32 {
        match self {
            Target::Fg => 38,
            Target::Bg => 48,
            Target::Ul => 58,
        }
    }
}

/// how an extended colour is written
#[derive(Debug, Clone, Copy, PartialEq, Eq, Hash, Serialize, Deserialize)]
pub enum ColorForm {
    /// `38;2;r;g;b` (konsole/xterm compatibility form; exactly three components)
    RgbSemi,
    /// `38:2:r:g:b`
    RgbColon,
    /// `38:2::r:g:b` (ISO-8613-6 with empty colour-space id)
    RgbColonEmptyCs,
    /// `38:2:<cs>:r:g:b`
    RgbColonCs(u32),
    /// `38;5;n`
    IdxSemi,
    /// `38:5:n`
    IdxColon,
}

impl ColorForm {
    pub const RGB: [ColorForm; 5] = [
        ColorForm::RgbSemi,
        ColorForm::RgbColon,
        ColorForm::RgbColonEmptyCs,
        ColorForm::RgbColonCs(0),
        ColorForm::RgbColonCs(1),
    ];
    pub fn is_indexed(self) -> bool {
        matches!(self, ColorForm::IdxSemi | ColorForm::IdxColon)
    }
}

/// One SGR parameter (group) and what it denotes
#[derive(Debug, Clone, Copy, PartialEq, Eq, Hash, Serialize, Deserialize)]
pub enum SgrOp {
    /// `0`
    Reset,
    /// empty parameter (default value 0)
    ResetEmpty,
    Bold,
    Italic,
    ItalicOff,
    Blink,
    BlinkOff,
    Strike,
    StrikeOff,
    /// plain `4`
    Underline,
    /// `4:n`, n = 0 none, 1 straight, 2 double, 3 curly, 4 dotted, 5 dashed
    UnderlineStyle(u32),
    /// `24`
    UnderlineOff,
    /// 30..=37, 90..=97: palette index 0..=15
    NamedFg(u8),
    /// 40..=47, 100..=107
    NamedBg(u8),
    /// 38 / 48 / 58 with an RGB value; for the indexed forms only `rgb[0]` is used as the index
    Color(Target, ColorForm, Rgb),
}

impl SgrOp {
    pub fn text(&self) -> String {
        match *self {
            SgrOp::Reset => "0".into(),
            SgrOp::ResetEmpty => "".into(),
            SgrOp::Bold => "1".into(),
            SgrOp::Italic => "3".into(),
            SgrOp::ItalicOff => "23".into(),
            SgrOp::Blink => "5".into(),
            SgrOp::BlinkOff => "25".into(),
            SgrOp::Strike => "9".into(),
            SgrOp::StrikeOff => "29".into(),
            SgrOp::Underline => "4".into(),
            SgrOp::UnderlineStyle(n) => format!("4:{n}"),
            SgrOp::UnderlineOff => "24".into(),
            SgrOp::NamedFg(i) => (if i < 8 { 30 + i as u32 } else { 90 + i as u32 - 8 }).to_string(),
            SgrOp::NamedBg(i) => (if i < 8 { 40 + i as u32 } else { 100 + i as u32 - 8 }).to_string(),
            SgrOp::Color(t, form, [r, g, b]) => {
                let c = t.code();
                match form {
                    ColorForm::RgbSemi => format!("{c};2;{r};{g};{b}"),
                    ColorForm::RgbColon => format!("{c}:2:{r}:{g}:{b}"),
                    ColorForm::RgbColonEmptyCs => format!("{c}:2::{r}:{g}:{b}"),
                    ColorForm::RgbColonCs(cs) => format!("{c}:2:{cs}:{r}:{g}:{b}"),
                    ColorForm::IdxSemi => format!("{c};5;{r}"),
                    ColorForm::IdxColon => format!("{c}:5:{r}"),
                }
            }
        }
    }

    pub fn apply(&self, m: &mut MModify) {
        match *self {
            // reset cancels everything said before it in the same sequence
            SgrOp::Reset | SgrOp::ResetEmpty => *m = MModify { reset: true, ..MModify::default() },
            SgrOp::Bold => m.bold = Some(true),
            SgrOp::Italic => m.italic = Some(true),
            SgrOp::ItalicOff => m.italic = Some(false),
            SgrOp::Blink => m.blink = Some(true),
            SgrOp::BlinkOff => m.blink = Some(false),
            SgrOp::Strike => m.strike = Some(true),
            SgrOp::StrikeOff => m.strike = Some(false),
            SgrOp::Underline => m.underline = Some(UStyle::Straight),
            SgrOp::UnderlineStyle(n) => {
                m.underline = Some(match n {
                    0 => UStyle::None,
                    1 => UStyle::Straight,
                    2 => UStyle::Double,
                    3 => UStyle::Curly,
                    4 => UStyle::Dotted,
                    _ => UStyle::Dashed,
                })
            }
            SgrOp::UnderlineOff => m.underline = Some(UStyle::None),
            SgrOp::NamedFg(i) => m.fg = Some(BASIC16[i as usize]),
            SgrOp::NamedBg(i) => m.bg = Some(BASIC16[i as usize]),
            SgrOp::Color(t, form, rgb) => {
                let c = if form.is_indexed() { palette256(rgb[0]) } else { rgb };
                match t {
                    Target::Fg => m.fg = Some(c),
                    Target::Bg => m.bg = Some(c),
                    Target::Ul => m.underline_color = Some(c),
                }
            }
        }
    }
}

pub fn sgr_params(ops: &[SgrOp]) -> String {
    ops.iter().map(|o| o.text()).collect::<Vec<_>>().join(";")
}

pub fn sgr_modify(ops: &[SgrOp]) -> MModify {
    let mut m = MModify::default();
    for o in ops {
        o.apply(&mut m);
    }
    m
}

/// the face a modification produces from the default face (underline colour is not part of a face)
pub fn face_of(m: &MModify) -> MFace {
    MFace {
        fg: m.fg,
        bg: m.bg,
        underline: m.underline.unwrap_or(UStyle::None),
        bold: m.bold == Some(true),
        italic: m.italic == Some(true),
        blink: m.blink == Some(true),
        reverse: false,
        strike: m.strike == Some(true),
    }
}

/// SGR: `CSI Pm m`
pub fn print_sgr(ops: &[SgrOp]) -> (Vec<u8>, Ev) {
    (format!("\x1b[{}m", sgr_params(ops)).into_bytes(), Ev::FaceModify(sgr_modify(ops)))
}

/// DECRPSS reply to DECRQSS `m`: `DCS 1 $ r Pm m ST`
pub fn print_decrpss_sgr(ops: &[SgrOp]) -> (Vec<u8>, Ev) {
    let mut b = format!("\x1bP1$r{}m", sgr_params(ops)).into_bytes();
    b.extend_from_slice(ST);
    (b, Ev::FaceGet(face_of(&sgr_modify(ops))))
}
