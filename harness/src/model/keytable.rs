//! reference model `keytable` (filled in by the property that needs it)
