//! reference model `sixel` (filled in by the property that needs it)
