//! Reference sixel interpreter, written from the DEC sixel description (VT3xx programmer
//! reference, "All about SIXELs"); shares no code with the library under test.
//!
//! Grammar accepted (anything else is a malformed stream):
//!   ESC P <params> q  { '"' Pan;Pad;Ph;Pv | '#' Pc [;Pu;Px;Py;Pz] | '!' Pn <data> | '$' | '-' |
//!   <data> }*  ESC \        with <data> = one byte 0x3f..=0x7e (six vertical pixels, bit 0 on top)
//!
//! The raster declared by the raster attributes starts out *unpainted*; a set bit paints the
//! pixel with the colour currently held by the selected register, a clear bit leaves it alone.
//! Paints outside the declared raster are counted, not stored.
use std::collections::BTreeMap;

#[derive(Debug, Clone, Default)]
pub struct Decoded {
    /// DCS parameters P1;P2;P3 as written (empty strings become None)
    pub dcs_params: Vec<Option<u32>>,
    /// Pan, Pad, Ph, Pv
    pub raster: Option<(u32, u32, u32, u32)>,
    pub width: usize,
    pub height: usize,
    /// painted colour (r,g,b in 0..=100) per raster pixel, row-major; None = never painted
    pub pix: Vec<Option<[u8; 3]>>,
    /// register -> colour, as defined (last definition wins)
    pub registers: BTreeMap<u32, [u8; 3]>,
    pub outside_paints: u64,
    pub overpaints: u64,
    pub undefined_used: Vec<u32>,
    /// registers whose definition changed after they had painted something
    pub redefined_after_use: Vec<u32>,
    /// grammar-level oddities that are not fatal
    pub problems: Vec<String>,
    // statistics for coverage reporting
    pub repeat_introducers: u64,
    /// `!n?` -- a run of blank sixels
    pub blank_repeats: u64,
    /// literal `?` data bytes (blank sixel written out)
    pub blank_literals: u64,
    pub max_repeat: u32,
    pub min_repeat: u32,
    pub data_bytes: u64,
    pub carriage_returns: u64,
    pub newlines: u64,
}

impl Decoded {
    pub fn unpainted(&self) -> usize {
        self.pix.iter().filter(|p| p.is_none()).count()
    }
    pub fn get(&self, row: usize, col: usize) -> Option<[u8; 3]> {
        self.pix[row * self.width + col]
    }
}

fn number(b: &[u8], i: &mut usize) -> Option<u32> {
    let start = *i;
    let mut v: u64 = 0;
    while *i < b.len() && b[*i].is_ascii_digit() {
        v = (v * 10 + (b[*i] - b'0') as u64).min(u32::MAX as u64);
        *i += 1;
    }
    if *i == start {
        None
    } else {
        Some(v as u32)
    }
}

/// `n ; n ; ...` -- a list of optional numbers
fn params(b: &[u8], i: &mut usize) -> Vec<Option<u32>> {
    let mut v = vec![number(b, i)];
    while *i < b.len() && b[*i] == b';' {
        *i += 1;
        v.push(number(b, i));
    }
    v
}

pub fn decode(b: &[u8]) -> Result<Decoded, String> {
    let mut d = Decoded { min_repeat: u32::MAX, ..Default::default() };
    if b.len() < 2 || b[0] != 0x1b || b[1] != b'P' {
        return Err("does not start with DCS (ESC P)".into());
    }
    let mut i = 2;
    d.dcs_params = params(b, &mut i);
    if d.dcs_params == vec![None] {
        d.dcs_params.clear();
    }
    if b.get(i) != Some(&b'q') {
        return Err(format!("DCS parameters are not followed by 'q' (offset {i})"));
    }
    i += 1;
    let (mut x, mut y) = (0usize, 0usize);
    let mut reg: u32 = 0;
    let mut used: BTreeMap<u32, [u8; 3]> = BTreeMap::new();
    let mut painted_any = false;
    let mut terminated = false;
    while i < b.len() {
        let c = b[i];
        match c {
            0x1b => {
                if b.get(i + 1) != Some(&b'\\') {
                    return Err(format!("ESC at offset {i} is not the string terminator"));
                }
                if i + 2 != b.len() {
                    return Err(format!("{} bytes after the string terminator", b.len() - i - 2));
                }
                terminated = true;
                break;
            }
            b'"' => {
                i += 1;
                let p = params(b, &mut i);
                if p.len() != 4 || p.iter().any(|v| v.is_none()) {
                    return Err(format!("raster attributes need Pan;Pad;Ph;Pv, got {:?}", p));
                }
                if painted_any {
                    d.problems.push("raster attributes after sixel data".into());
                }
                if d.raster.is_some() {
                    d.problems.push("raster attributes given twice".into());
                }
                let (pan, pad, ph, pv) = (p[0].unwrap(), p[1].unwrap(), p[2].unwrap(), p[3].unwrap());
                if ph as u64 * pv as u64 > 1 << 26 {
                    return Err(format!("declared raster {ph}x{pv} too large for the reference interpreter"));
                }
                d.raster = Some((pan, pad, ph, pv));
                d.width = ph as usize;
                d.height = pv as usize;
                d.pix = vec![None; d.width * d.height];
            }
            b'#' => {
                i += 1;
                let p = params(b, &mut i);
                let Some(pc) = p[0] else {
                    return Err(format!("'#' without a register number at offset {i}"));
                };
                match p.len() {
                    1 => reg = pc,
                    5 => {
                        let (Some(pu), Some(px), Some(py), Some(pz)) = (p[1], p[2], p[3], p[4]) else {
                            return Err(format!("colour definition with empty parameter: {:?}", p));
                        };
                        match pu {
                            2 => {
                                if px > 100 || py > 100 || pz > 100 {
                                    d.problems.push(format!("colour #{pc} component out of 0..=100: {px};{py};{pz}"));
                                }
                                let col = [px.min(255) as u8, py.min(255) as u8, pz.min(255) as u8];
                                if let Some(old) = used.get(&pc) {
                                    if *old != col && !d.redefined_after_use.contains(&pc) {
                                        d.redefined_after_use.push(pc);
                                    }
                                }
                                d.registers.insert(pc, col);
                            }
                            1 => {
                                d.problems.push(format!("colour #{pc} defined in HLS, which the reference interpreter does not convert"));
                            }
                            other => return Err(format!("colour coordinate system {other} (only 1=HLS, 2=RGB exist)")),
                        }
                        reg = pc;
                    }
                    n => return Err(format!("'#' with {n} parameters (1 selects, 5 define)")),
                }
            }
            b'$' => {
                x = 0;
                d.carriage_returns += 1;
                i += 1;
            }
            b'-' => {
                x = 0;
                y += 6;
                d.newlines += 1;
                i += 1;
            }
            b'!' | 0x3f..=0x7e => {
                let mut count = 1u32;
                if c == b'!' {
                    i += 1;
                    let Some(n) = number(b, &mut i) else {
                        return Err(format!("'!' without a count at offset {i}"));
                    };
                    d.repeat_introducers += 1;
                    d.max_repeat = d.max_repeat.max(n);
                    d.min_repeat = d.min_repeat.min(n);
                    if n == 0 {
                        d.problems.push("repeat count 0".into());
                    }
                    count = n.max(1);
                    match b.get(i) {
                        Some(0x3f..=0x7e) => {}
                        other => return Err(format!("repeat introducer not followed by a sixel data byte: {:?}", other)),
                    }
                }
                let bits = b[i] - 0x3f;
                if bits == 0 {
                    if c == b'!' {
                        d.blank_repeats += 1;
                    } else {
                        d.blank_literals += 1;
                    }
                }
                i += 1;
                d.data_bytes += 1;
                if bits != 0 {
                    let colour = match d.registers.get(&reg) {
                        Some(c) => *c,
                        None => {
                            if !d.undefined_used.contains(&reg) {
                                d.undefined_used.push(reg);
                            }
                            [255, 255, 255]
                        }
                    };
                    used.insert(reg, colour);
                    painted_any = true;
                    for k in 0..count as usize {
                        for bit in 0..6 {
                            if bits >> bit & 1 == 1 {
                                let (px, py) = (x + k, y + bit);
                                if px < d.width && py < d.height {
                                    let slot = &mut d.pix[py * d.width + px];
                                    if slot.is_some() {
                                        d.overpaints += 1;
                                    }
                                    *slot = Some(colour);
                                } else {
                                    d.outside_paints += 1;
                                }
                            }
                        }
                    }
                }
                x += count as usize;
            }
            other => return Err(format!("byte 0x{:02x} at offset {i} is not part of the sixel grammar", other)),
        }
    }
    if !terminated {
        return Err("no string terminator (ESC \\)".into());
    }
    if d.min_repeat == u32::MAX {
        d.min_repeat = 0;
    }
    Ok(d)
}

#[cfg(test)]
mod tests {
    use super::*;

    #[test]
    fn small_picture() {
        // 3x6 raster: column 0 red (all six), column 1 blank, column 2 top pixel blue
        let s = b"\x1bPq\"1;1;3;6#0;2;100;0;0#1;2;0;0;100#0~$#1??@$-\x1b\\";
        let d = decode(s).unwrap();
        assert_eq!((d.width, d.height), (3, 6));
        assert_eq!(d.get(0, 0), Some([100, 0, 0]));
        assert_eq!(d.get(5, 0), Some([100, 0, 0]));
        assert_eq!(d.get(0, 1), None);
        assert_eq!(d.get(0, 2), Some([0, 0, 100]));
        assert_eq!(d.get(1, 2), None);
        assert_eq!(d.unpainted(), 6 + 5);
        assert_eq!(d.outside_paints, 0);
    }

    #[test]
    fn repeat_and_outside() {
        let s = b"\x1bPq\"1;1;4;6#5;2;1;2;3#5!5~-~\x1b\\";
        let d = decode(s).unwrap();
        assert_eq!(d.unpainted(), 0);
        assert_eq!(d.outside_paints, 6 + 6); // fifth column, and the band below
        assert!(decode(b"\x1bPq#0;2;0;0;0~").is_err());
        assert!(decode(b"\x1bPq!~\x1b\\").is_err());
    }
}
