//! Independent byte-level control-sequence parser and operation decoder.
//!
//! Written from ECMA-48 (5th ed., 5.4 control sequences, 5.6 control strings), the DEC
//! VT500 parser state diagram (vt100.net/emu/dec_ansi_parser) and xterm ctlseqs; no library
//! code is used. The input is interpreted as UTF-8 (xterm in UTF-8 mode): C1 controls are
//! recognised as the code points U+0080..U+009F and as their 7-bit `ESC Fe` forms.
//!
//! Layer 1, [parse] / [Parser]: bytes -> [Token]s (printable characters, C0 controls, escape
//! sequences, control sequences with parameters / ':' sub-parameters / private markers /
//! intermediates, OSC / DCS / SOS / PM / APC strings with their terminator).
//! Layer 2, [decode_ops]: tokens -> abstract operations [Op] with VT defaults applied
//! (a missing or zero count means 1, missing CUP coordinates mean 1, ...).
//! The SGR interpreter lives in [crate::model::sgr] and is re-exported here.
pub use crate::model::sgr::{apply as sgr_apply, Colour, Note as SgrNote, Param, Rendition, Underline};

/// How a control string ended.
#[derive(Debug, Clone, Copy, PartialEq, Eq, Hash)]
pub enum Term {
    /// String Terminator: `ESC \` (or U+009C)
    St,
    /// BEL (xterm accepts it for OSC only)
    Bel,
    /// CAN, SUB, or an ESC that starts another sequence: the string is cancelled
    Aborted,
}

#[derive(Debug, Clone, PartialEq, Eq, Hash)]
pub enum Token {
    /// graphic character (GL, or any non-control UTF-8 scalar)
    Print(char),
    /// C0 control (0x00..=0x1f except ESC) or DEL, executed immediately
    C0(u8),
    /// escape sequence `ESC I.. F` that does not introduce a longer construct
    /// (`ESC 7`, `ESC 8`, `ESC c`, `ESC ( B`, C1 controls without a body such as `ESC M`)
    Esc { inter: Vec<u8>, fin: u8 },
    /// control sequence `CSI [marker] P.. I.. F`; `marker` is one of `< = > ?`
    Csi { marker: Option<u8>, params: Vec<Param>, inter: Vec<u8>, fin: u8 },
    /// device control string: header like a control sequence, then data
    Dcs { marker: Option<u8>, params: Vec<Param>, inter: Vec<u8>, fin: u8, data: Vec<u8>, term: Term },
    /// operating system command
    Osc { data: Vec<u8>, term: Term },
    /// SOS (`X`), PM (`^`) or APC (`_`) string
    Str { kind: u8, data: Vec<u8>, term: Term },
    /// bytes that are not a well formed construct: bad UTF-8, a control sequence that breaks
    /// the ECMA-48 grammar (ignored by a VT), a sequence cancelled by CAN/SUB/ESC, or a
    /// sequence still open at the end of the input
    Invalid { bytes: Vec<u8>, why: &'static str },
}

#[derive(Debug, Clone, Copy, PartialEq, Eq)]
enum St {
    Ground,
    Utf8,
    Esc,
    Csi,
    DcsHead,
    DcsData,
    Osc,
    Str,
}

/// Incremental parser; feed any chunking of the stream, then call [Parser::finish].
pub struct Parser {
    st: St,
    /// bytes of the construct being parsed (for diagnostics)
    raw: Vec<u8>,
    tokens: Vec<(Token, usize)>,
    offset: usize,
    // utf-8
    need: u8,
    cp: u32,
    // escape / control sequence header
    inter: Vec<u8>,
    marker: Option<u8>,
    params: Vec<Param>,
    cur: Param,
    num: Option<u64>,
    seen_param: bool,
    phase: u8, // 0 = entry, 1 = parameters, 2 = intermediates
    ignore: bool,
    fin: u8,
    // strings
    data: Vec<u8>,
    kind: u8,
    esc_pending: bool,
}

impl Default for Parser {
    fn default() -> Self {
        Self::new()
    }
}

impl Parser {
    pub fn new() -> Self {
        Parser {
            st: St::Ground,
            raw: vec![],
            tokens: vec![],
            offset: 0,
            need: 0,
            cp: 0,
            inter: vec![],
            marker: None,
            params: vec![],
            cur: vec![],
            num: None,
            seen_param: false,
            phase: 0,
            ignore: false,
            fin: 0,
            data: vec![],
            kind: 0,
            esc_pending: false,
        }
    }

    pub fn feed(&mut self, bytes: &[u8]) {
        for b in bytes {
            self.byte(*b);
            self.offset += 1;
        }
    }

    /// Tokens with the offset one past their last byte.
    pub fn finish_spans(mut self) -> Vec<(Token, usize)> {
        if self.st != St::Ground {
            let bytes = std::mem::take(&mut self.raw);
            self.emit(Token::Invalid { bytes, why: "unterminated at end of input" });
        }
        self.tokens
    }

    pub fn finish(self) -> Vec<Token> {
        self.finish_spans().into_iter().map(|(t, _)| t).collect()
    }

    /// True when no construct is open (every byte fed so far belongs to a finished token).
    pub fn at_ground(&self) -> bool {
        self.st == St::Ground
    }

    fn emit(&mut self, t: Token) {
        self.tokens.push((t, self.offset + 1));
    }

    fn ground(&mut self) {
        self.st = St::Ground;
        self.raw.clear();
    }

    fn invalid(&mut self, why: &'static str) {
        let bytes = std::mem::take(&mut self.raw);
        self.emit(Token::Invalid { bytes, why });
        self.st = St::Ground;
    }

    fn start_header(&mut self, st: St) {
        self.st = st;
        self.inter.clear();
        self.marker = None;
        self.params.clear();
        self.cur.clear();
        self.num = None;
        self.seen_param = false;
        self.phase = 0;
        self.ignore = false;
    }

    fn start_string(&mut self, st: St, kind: u8) {
        self.st = st;
        self.kind = kind;
        self.data.clear();
        self.esc_pending = false;
    }

    fn byte(&mut self, b: u8) {
        match self.st {
            St::Ground => self.ground_byte(b),
            St::Utf8 => self.utf8_byte(b),
            St::Esc => self.esc_byte(b),
            St::Csi | St::DcsHead => self.header_byte(b),
            St::DcsData | St::Osc | St::Str => self.string_byte(b),
        }
    }

    fn ground_byte(&mut self, b: u8) {
        match b {
            0x1b => {
                self.raw.clear();
                self.raw.push(b);
                self.inter.clear();
                self.st = St::Esc;
            }
            0x00..=0x1f | 0x7f => self.emit(Token::C0(b)),
            0x20..=0x7e => self.emit(Token::Print(b as char)),
            0xc2..=0xdf => self.utf8_start(b, 1, (b & 0x1f) as u32),
            0xe0..=0xef => self.utf8_start(b, 2, (b & 0x0f) as u32),
            0xf0..=0xf4 => self.utf8_start(b, 3, (b & 0x07) as u32),
            _ => {
                self.raw.clear();
                self.raw.push(b);
                self.invalid("invalid UTF-8 lead byte");
            }
        }
    }

    fn utf8_start(&mut self, b: u8, need: u8, cp: u32) {
        self.raw.clear();
        self.raw.push(b);
        self.need = need;
        self.cp = cp;
        self.st = St::Utf8;
    }

    fn utf8_byte(&mut self, b: u8) {
        if b & 0xc0 != 0x80 {
            self.invalid("truncated UTF-8 sequence");
            self.ground_byte(b);
            return;
        }
        self.raw.push(b);
        self.cp = self.cp << 6 | (b & 0x3f) as u32;
        self.need -= 1;
        if self.need > 0 {
            return;
        }
        let min = match self.raw.len() {
            2 => 0x80,
            3 => 0x800,
            _ => 0x10000,
        };
        match char::from_u32(self.cp) {
            Some(c) if self.cp >= min => {
                if (0x80..=0x9f).contains(&self.cp) {
                    // C1 control: same meaning as ESC Fe
                    self.inter.clear();
                    self.st = St::Esc;
                    self.esc_byte(self.cp as u8 - 0x40);
                } else {
                    self.emit(Token::Print(c));
                    self.ground();
                }
            }
            _ => self.invalid("overlong, surrogate or out of range UTF-8"),
        }
    }

    fn esc_byte(&mut self, b: u8) {
        self.raw.push(b);
        match b {
            0x18 | 0x1a => self.invalid("cancelled by CAN/SUB"),
            0x1b => {
                self.raw.pop();
                self.invalid("interrupted by ESC");
                self.ground_byte(b);
            }
            0x00..=0x1f => {
                self.raw.pop();
                self.emit(Token::C0(b));
            }
            0x7f => {
                self.raw.pop();
            }
            0x20..=0x2f => self.inter.push(b),
            0x30..=0x7e => {
                if self.inter.is_empty() {
                    match b {
                        b'[' => return self.start_header(St::Csi),
                        b'P' => return self.start_header(St::DcsHead),
                        b']' => return self.start_string(St::Osc, b']'),
                        b'X' | b'^' | b'_' => return self.start_string(St::Str, b),
                        _ => {}
                    }
                }
                let inter = std::mem::take(&mut self.inter);
                self.emit(Token::Esc { inter, fin: b });
                self.ground();
            }
            _ => self.invalid("non-ASCII byte inside an escape sequence"),
        }
    }

    fn push_num(&mut self) {
        let n = self.num.take();
        self.cur.push(n);
    }

    fn header_byte(&mut self, b: u8) {
        self.raw.push(b);
        match b {
            0x18 | 0x1a => self.invalid("cancelled by CAN/SUB"),
            0x1b => {
                self.raw.pop();
                self.invalid("interrupted by ESC");
                self.ground_byte(b);
            }
            0x00..=0x1f => {
                self.raw.pop();
                if self.st == St::Csi {
                    self.emit(Token::C0(b)); // executed in the middle of a control sequence
                }
            }
            0x7f => {
                self.raw.pop();
            }
            b'0'..=b'9' => {
                if self.phase == 2 {
                    self.ignore = true;
                } else {
                    self.phase = 1;
                    self.seen_param = true;
                    let d = (b - b'0') as u64;
                    self.num = Some(self.num.unwrap_or(0).saturating_mul(10).saturating_add(d));
                }
            }
            b':' | b';' => {
                if self.phase == 2 {
                    self.ignore = true;
                } else {
                    self.phase = 1;
                    self.seen_param = true;
                    self.push_num();
                    if b == b';' {
                        let p = std::mem::take(&mut self.cur);
                        self.params.push(p);
                    }
                }
            }
            0x3c..=0x3f => {
                if self.phase == 0 {
                    self.marker = Some(b);
                    self.phase = 1;
                } else {
                    self.ignore = true;
                }
            }
            0x20..=0x2f => {
                self.phase = 2;
                self.inter.push(b);
            }
            0x40..=0x7e => {
                if self.seen_param {
                    self.push_num();
                    let p = std::mem::take(&mut self.cur);
                    self.params.push(p);
                }
                self.fin = b;
                if self.st == St::Csi {
                    if self.ignore {
                        return self.invalid("control sequence violating the ECMA-48 grammar");
                    }
                    let t = Token::Csi {
                        marker: self.marker,
                        params: std::mem::take(&mut self.params),
                        inter: std::mem::take(&mut self.inter),
                        fin: b,
                    };
                    self.emit(t);
                    self.ground();
                } else {
                    self.start_string(St::DcsData, b'P');
                }
            }
            _ => self.ignore = true,
        }
    }

    fn end_string(&mut self, term: Term) {
        let data = std::mem::take(&mut self.data);
        let t = match self.st {
            St::Osc => Token::Osc { data, term },
            St::Str => Token::Str { kind: self.kind, data, term },
            _ => {
                if self.ignore {
                    return self.invalid("device control string with a malformed header");
                }
                Token::Dcs {
                    marker: self.marker,
                    params: std::mem::take(&mut self.params),
                    inter: std::mem::take(&mut self.inter),
                    fin: self.fin,
                    data,
                    term,
                }
            }
        };
        self.emit(t);
        self.ground();
    }

    fn string_byte(&mut self, b: u8) {
        if self.esc_pending {
            self.esc_pending = false;
            if b == b'\\' {
                self.raw.push(b);
                return self.end_string(Term::St);
            }
            // ESC starts a new sequence: the string is cancelled
            self.raw.pop();
            self.offset -= 1;
            self.end_string(Term::Aborted);
            self.offset += 1;
            self.raw.clear();
            self.raw.push(0x1b);
            self.inter.clear();
            self.st = St::Esc;
            return self.esc_byte(b);
        }
        self.raw.push(b);
        match b {
            0x1b => self.esc_pending = true,
            0x18 | 0x1a => self.end_string(Term::Aborted),
            0x07 if self.st == St::Osc => self.end_string(Term::Bel),
            // C0 inside OSC is ignored (VT500 diagram); DCS passes it through; SOS/PM/APC keep it
            0x00..=0x1f if self.st == St::Osc => {}
            _ => self.data.push(b),
        }
    }
}

/// Parse a complete byte stream.
pub fn parse(bytes: &[u8]) -> Vec<Token> {
    let mut p = Parser::new();
    p.feed(bytes);
    p.finish()
}

// ------------------------------------------------------------------------------------------
// operations
// ------------------------------------------------------------------------------------------

#[derive(Debug, Clone, PartialEq, Eq, Hash)]
pub enum Op {
    Print(char),
    C0(u8),
    /// CUP / HVP, 1-based, defaults applied
    Cup { row: u64, col: u64 },
    Cuu(u64),
    Cud(u64),
    Cuf(u64),
    Cub(u64),
    /// ED with selector (0 = to end, 1 = to start, 2 = all, 3 = scrollback)
    Ed(u64),
    /// EL with selector (0 = to the right, 1 = to the left, 2 = whole line)
    El(u64),
    Ech(u64),
    Su(u64),
    Sd(u64),
    /// DECSTBM, 1-based; `bottom == None` means the last line of the screen
    Decstbm { top: u64, bottom: Option<u64> },
    /// DECSET / DECRST / DECRQM: one operation per listed mode
    DecSet(u64),
    DecRst(u64),
    Decrqm(u64),
    /// DSR with its selector (6 = report cursor position)
    Dsr(u64),
    Decsc,
    Decrc,
    Ris,
    Sgr(Vec<Param>),
    /// DECRQSS with the setting selector (e.g. `m`)
    Decrqss(Vec<u8>),
    /// XTGETTCAP with the hex-decoded capability names
    XtGetTcap(Vec<Vec<u8>>),
    /// OSC 0 / 1 / 2
    OscTitle { ps: u64, text: Vec<u8> },
    /// OSC 4 (index = Some) and OSC 10.. dynamic colours (index = None); spec is `?` for a query
    OscColour { ps: u64, index: Option<u64>, spec: Vec<u8> },
    Da1,
    /// kitty keyboard protocol `CSI = flags ; mode u` (mode defaults to 1 = set)
    KittyKeyboardSet { flags: u64, mode: u64 },
    /// anything this decoder has no name for, or a malformed / cancelled construct
    Other(Token),
}

fn main(p: &Param) -> Option<u64> {
    p.first().copied().flatten()
}

fn plain(params: &[Param]) -> bool {
    params.iter().all(|p| p.len() == 1)
}

fn count(params: &[Param], i: usize) -> u64 {
    match params.get(i).and_then(main) {
        None | Some(0) => 1,
        Some(n) => n,
    }
}

fn selector(params: &[Param]) -> u64 {
    params.first().and_then(main).unwrap_or(0)
}

fn hex_decode(s: &[u8]) -> Option<Vec<u8>> {
    if s.len() % 2 != 0 {
        return None;
    }
    s.chunks(2)
        .map(|c| {
            let h = (c[0] as char).to_digit(16)?;
            let l = (c[1] as char).to_digit(16)?;
            Some((h * 16 + l) as u8)
        })
        .collect()
}

fn number(s: &[u8]) -> Option<u64> {
    if s.is_empty() || s.len() > 18 || !s.iter().all(|b| b.is_ascii_digit()) {
        return None;
    }
    std::str::from_utf8(s).ok()?.parse().ok()
}

fn csi_ops(marker: Option<u8>, params: &[Param], inter: &[u8], fin: u8, out: &mut Vec<Op>) -> bool {
    if !plain(params) && fin != b'm' {
        return false;
    }
    let n = params.len();
    match (marker, inter, fin) {
        (None, b"", b'H') | (None, b"", b'f') if n <= 2 => {
            out.push(Op::Cup { row: count(params, 0), col: count(params, 1) })
        }
        (None, b"", b'A') if n <= 1 => out.push(Op::Cuu(count(params, 0))),
        (None, b"", b'B') if n <= 1 => out.push(Op::Cud(count(params, 0))),
        (None, b"", b'C') if n <= 1 => out.push(Op::Cuf(count(params, 0))),
        (None, b"", b'D') if n <= 1 => out.push(Op::Cub(count(params, 0))),
        (None, b"", b'J') if n <= 1 => out.push(Op::Ed(selector(params))),
        (None, b"", b'K') if n <= 1 => out.push(Op::El(selector(params))),
        (None, b"", b'X') if n <= 1 => out.push(Op::Ech(count(params, 0))),
        (None, b"", b'S') if n <= 1 => out.push(Op::Su(count(params, 0))),
        (None, b"", b'T') if n <= 1 => out.push(Op::Sd(count(params, 0))),
        (None, b"", b'r') if n <= 2 => out.push(Op::Decstbm {
            top: count(params, 0),
            bottom: match params.get(1).and_then(main) {
                None | Some(0) => None,
                Some(b) => Some(b),
            },
        }),
        (Some(b'?'), b"", b'h') if n >= 1 => out.extend(params.iter().map(|p| Op::DecSet(main(p).unwrap_or(0)))),
        (Some(b'?'), b"", b'l') if n >= 1 => out.extend(params.iter().map(|p| Op::DecRst(main(p).unwrap_or(0)))),
        (Some(b'?'), b"$", b'p') if n == 1 => out.push(Op::Decrqm(selector(params))),
        (None, b"", b'n') if n <= 1 => out.push(Op::Dsr(selector(params))),
        (None, b"", b'c') if n <= 1 && selector(params) == 0 => out.push(Op::Da1),
        (Some(b'='), b"", b'u') if n <= 2 => out.push(Op::KittyKeyboardSet {
            flags: selector(params),
            mode: count(params, 1),
        }),
        (None, b"", b'm') => out.push(Op::Sgr(params.to_vec())),
        _ => return false,
    }
    true
}

fn osc_ops(data: &[u8], out: &mut Vec<Op>) -> bool {
    let (ps, rest) = match data.iter().position(|b| *b == b';') {
        Some(i) => (&data[..i], Some(&data[i + 1..])),
        None => (data, None),
    };
    let (Some(ps), Some(rest)) = (number(ps), rest) else {
        return false;
    };
    match ps {
        0..=2 => out.push(Op::OscTitle { ps, text: rest.to_vec() }),
        4 => {
            let parts: Vec<&[u8]> = rest.split(|b| *b == b';').collect();
            if parts.len() % 2 != 0 {
                return false;
            }
            let mut ops = vec![];
            for pair in parts.chunks(2) {
                match number(pair[0]) {
                    Some(index) => ops.push(Op::OscColour { ps: 4, index: Some(index), spec: pair[1].to_vec() }),
                    None => return false,
                }
            }
            out.extend(ops);
        }
        10..=19 => {
            for (i, spec) in rest.split(|b| *b == b';').enumerate() {
                out.push(Op::OscColour { ps: ps + i as u64, index: None, spec: spec.to_vec() });
            }
        }
        _ => return false,
    }
    true
}

/// Map tokens to operations.
pub fn decode_ops(tokens: &[Token]) -> Vec<Op> {
    let mut out = Vec::with_capacity(tokens.len());
    for t in tokens {
        let known = match t {
            Token::Print(c) => {
                out.push(Op::Print(*c));
                true
            }
            Token::C0(b) => {
                out.push(Op::C0(*b));
                true
            }
            Token::Esc { inter, fin } if inter.is_empty() => match fin {
                b'7' => {
                    out.push(Op::Decsc);
                    true
                }
                b'8' => {
                    out.push(Op::Decrc);
                    true
                }
                b'c' => {
                    out.push(Op::Ris);
                    true
                }
                _ => false,
            },
            Token::Csi { marker, params, inter, fin } => csi_ops(*marker, params, inter, *fin, &mut out),
            Token::Dcs { marker: None, params, inter, fin: b'q', data, term: Term::St } if params.is_empty() => {
                match inter.as_slice() {
                    b"$" => {
                        out.push(Op::Decrqss(data.clone()));
                        true
                    }
                    b"+" => {
                        let names: Option<Vec<Vec<u8>>> = if data.is_empty() {
                            Some(vec![])
                        } else {
                            data.split(|b| *b == b';').map(hex_decode).collect()
                        };
                        match names {
                            Some(names) => {
                                out.push(Op::XtGetTcap(names));
                                true
                            }
                            None => false,
                        }
                    }
                    _ => false,
                }
            }
            Token::Osc { data, term: Term::St | Term::Bel } => osc_ops(data, &mut out),
            _ => false,
        };
        if !known {
            out.push(Op::Other(t.clone()));
        }
    }
    out
}

/// Parse and decode in one go.
pub fn interpret(bytes: &[u8]) -> Vec<Op> {
    decode_ops(&parse(bytes))
}

/// X11 colour specification (`XParseColor`) to 8 bits per channel, when it denotes such a
/// colour exactly: `#rgb`, `#rrggbb`, `#rrrgggbbb`, `#rrrrggggbbbb` (left aligned) and
/// `rgb:h/h/h` with 1..=4 hex digits per channel (scaled).
pub fn xparse_colour(spec: &[u8]) -> Option<(u8, u8, u8)> {
    let s = std::str::from_utf8(spec).ok()?;
    let hex = |h: &str| -> Option<u32> {
        if h.is_empty() || h.len() > 4 || !h.bytes().all(|b| b.is_ascii_hexdigit()) {
            return None;
        }
        u32::from_str_radix(h, 16).ok()
    };
    if let Some(h) = s.strip_prefix('#') {
        if !h.is_ascii() || h.len() % 3 != 0 || h.is_empty() || h.len() > 12 {
            return None;
        }
        let n = h.len() / 3;
        let ch = |i: usize| -> Option<u8> {
            let v = hex(&h[i * n..(i + 1) * n])? << (4 * (4 - n)); // left aligned in 16 bits
            if v & 0xff != 0 {
                return None;
            }
            Some((v >> 8) as u8)
        };
        return Some((ch(0)?, ch(1)?, ch(2)?));
    }
    let body = s.strip_prefix("rgb:")?;
    let parts: Vec<&str> = body.split('/').collect();
    if parts.len() != 3 {
        return None;
    }
    let ch = |h: &str| -> Option<u8> {
        let max = (1u32 << (4 * h.len() as u32)) - 1;
        let v = hex(h)? * 255;
        if v % max != 0 {
            return None;
        }
        Some((v / max) as u8)
    };
    Some((ch(parts[0])?, ch(parts[1])?, ch(parts[2])?))
}

#[cfg(test)]
mod tests {
    use super::*;

    #[test]
    fn tokens() {
        let t = parse(b"a\x1b[1;2H\x1b[?1049h\x1b[4:3;38:2::1:2:3m\x1b]0;hi\x07\x1bP$qm\x1b\\\x1b7\xc3\xa9");
        assert_eq!(t.len(), 8, "{:?}", t);
        assert_eq!(t[0], Token::Print('a'));
        assert_eq!(
            t[1],
            Token::Csi { marker: None, params: vec![vec![Some(1)], vec![Some(2)]], inter: vec![], fin: b'H' }
        );
        assert_eq!(
            t[3],
            Token::Csi {
                marker: None,
                params: vec![vec![Some(4), Some(3)], vec![Some(38), Some(2), None, Some(1), Some(2), Some(3)]],
                inter: vec![],
                fin: b'm'
            }
        );
        assert_eq!(t[4], Token::Osc { data: b"0;hi".to_vec(), term: Term::Bel });
        assert_eq!(t[7], Token::Print('é'));
        let ops = decode_ops(&t);
        assert_eq!(ops[1], Op::Cup { row: 1, col: 2 });
        assert_eq!(ops[2], Op::DecSet(1049));
        assert_eq!(ops[5], Op::Decrqss(b"m".to_vec()));
        assert_eq!(ops[6], Op::Decsc);
    }

    #[test]
    fn defaults_and_errors() {
        assert_eq!(interpret(b"\x1b[H\x1b[0X\x1b[X\x1b[;5H"), vec![
            Op::Cup { row: 1, col: 1 },
            Op::Ech(1),
            Op::Ech(1),
            Op::Cup { row: 1, col: 5 }
        ]);
        assert!(matches!(parse(b"\x1b[-5D")[0], Token::Invalid { .. }));
        assert!(matches!(parse(b"\x1b]0;x")[0], Token::Invalid { .. }));
        // ESC inside a string cancels it and starts a new sequence
        let t = parse(b"\x1b]0;x\x1b[2J");
        assert_eq!(t[0], Token::Osc { data: b"0;x".to_vec(), term: Term::Aborted });
        assert_eq!(decode_ops(&t)[1], Op::Ed(2));
        assert_eq!(interpret(b"\x1bP+q544e;436f\x1b\\"), vec![Op::XtGetTcap(vec![b"TN".to_vec(), b"Co".to_vec()])]);
        assert_eq!(interpret(b"\x1b[=5u"), vec![Op::KittyKeyboardSet { flags: 5, mode: 1 }]);
        // chunked feeding gives the same tokens
        let all = b"\x1b[38;2;1;2;3m\xe2\x82\xac\x1b]4;1;#ff0000\x1b\\";
        let mut p = Parser::new();
        for b in all.iter() {
            p.feed(&[*b]);
        }
        assert_eq!(p.finish(), parse(all));
    }

    #[test]
    fn xcolour() {
        assert_eq!(xparse_colour(b"#ff0080"), Some((255, 0, 128)));
        assert_eq!(xparse_colour(b"rgb:ff/00/80"), Some((255, 0, 128)));
        assert_eq!(xparse_colour(b"rgb:ffff/0000/8080"), Some((255, 0, 128)));
        assert_eq!(xparse_colour(b"#f08"), Some((0xf0, 0, 0x80)));
        assert_eq!(xparse_colour(b"red"), None);
    }
}
