//! reference model `ecma48` (filled in by the property that needs it)
