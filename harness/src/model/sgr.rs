//! Reference SGR (Select Graphic Rendition) state machine.
//!
//! Written from ECMA-48 8.3.117, xterm ctlseqs ("Character Attributes (SGR)") and the
//! kitty/VTE underline extension (`4:n`, `58`/`59`). No library code is used.
//!
//! Semantics: every attribute and every colour is an independent slot; a parameter sets or
//! clears exactly its slot; parameters are applied left to right, so later ones override
//! earlier ones; `0` (or an empty parameter) restores the default rendition.

/// A CSI parameter: the main value followed by its ':' sub-parameters (`None` = omitted).
pub type Param = Vec<Option<u64>>;

#[derive(Debug, Clone, Copy, PartialEq, Eq, Hash, PartialOrd, Ord, Default)]
pub enum Colour {
    /// terminal default (SGR 39 / 49 / 59 or reset)
    #[default]
    Default,
    /// palette entry 0..=255 (30-37, 90-97, 40-47, 100-107, x8;5;n)
    Index(u8),
    /// direct colour (x8;2;r;g;b and x8:2:[cs]:r:g:b)
    Rgb(u8, u8, u8),
}

#[derive(Debug, Clone, Copy, PartialEq, Eq, Hash, PartialOrd, Ord, Default)]
pub enum Underline {
    #[default]
    None,
    Single,
    Double,
    Curly,
    Dotted,
    Dashed,
}

#[derive(Debug, Clone, Copy, PartialEq, Eq, Hash, PartialOrd, Ord, Default)]
pub struct Rendition {
    pub fg: Colour,
    pub bg: Colour,
    pub underline_colour: Colour,
    pub bold: bool,
    pub italic: bool,
    pub blink: bool,
    pub reverse: bool,
    pub strike: bool,
    pub underline: Underline,
}

/// What the interpreter could not give a meaning to (a check that demands "nothing else"
/// wants this list to be empty).
#[derive(Debug, Clone, PartialEq, Eq, Hash)]
pub enum Note {
    /// a valid SGR code whose attribute is not part of [Rendition] (faint, conceal, fonts, ...)
    Unmodelled(u64),
    /// an extended colour introducer without a complete, in-range colour
    MalformedColour(u64),
}

fn byte(v: Option<u64>) -> Option<u8> {
    // an omitted colour component counts as 0 (xterm), anything above 255 is out of range
    u8::try_from(v.unwrap_or(0)).ok()
}

/// `38`/`48`/`58`: returns the colour and how many following ';' parameters were consumed.
fn extended(params: &[Param], at: usize) -> (Option<Colour>, usize) {
    let head = &params[at];
    if head.len() > 1 {
        // ':' form, everything is inside this parameter: 5:n | 2:r:g:b | 2:cs:r:g:b[:tolerance..]
        let colour = match head[1] {
            Some(5) if head.len() >= 3 => byte(head[2]).map(Colour::Index),
            Some(2) if head.len() == 5 => match (byte(head[2]), byte(head[3]), byte(head[4])) {
                (Some(r), Some(g), Some(b)) => Some(Colour::Rgb(r, g, b)),
                _ => None,
            },
            Some(2) if head.len() >= 6 => match (byte(head[3]), byte(head[4]), byte(head[5])) {
                (Some(r), Some(g), Some(b)) => Some(Colour::Rgb(r, g, b)),
                _ => None,
            },
            _ => None,
        };
        return (colour, 0);
    }
    // legacy ';' form: 5;n consumes one, 2;r;g;b consumes exactly three further parameters
    let main = |i: usize| params.get(at + i).filter(|p| p.len() == 1).map(|p| p[0]);
    match main(1) {
        Some(Some(5)) => match main(2) {
            Some(n) => (byte(n).map(Colour::Index), 2),
            None => (None, params.len() - at - 1),
        },
        Some(Some(2)) => match (main(2), main(3), main(4)) {
            (Some(r), Some(g), Some(b)) => (
                match (byte(r), byte(g), byte(b)) {
                    (Some(r), Some(g), Some(b)) => Some(Colour::Rgb(r, g, b)),
                    _ => None,
                },
                4,
            ),
            _ => (None, params.len() - at - 1),
        },
        _ => (None, params.len() - at - 1),
    }
}

/// Apply the parameters of one `CSI ... m` to `r`.
pub fn apply(r: &mut Rendition, params: &[Param]) -> Vec<Note> {
    let mut notes = Vec::new();
    if params.is_empty() {
        *r = Rendition::default();
        return notes;
    }
    let mut i = 0;
    while i < params.len() {
        let p = &params[i];
        let code = p.first().copied().flatten().unwrap_or(0);
        match code {
            0 => *r = Rendition::default(),
            1 => r.bold = true,
            22 => r.bold = false, // normal intensity (also ends faint, which is not modelled)
            3 => r.italic = true,
            23 => r.italic = false,
            4 => {
                r.underline = match p.get(1).copied() {
                    None | Some(None) | Some(Some(1)) => Underline::Single,
                    Some(Some(0)) => Underline::None,
                    Some(Some(2)) => Underline::Double,
                    Some(Some(3)) => Underline::Curly,
                    Some(Some(4)) => Underline::Dotted,
                    Some(Some(5)) => Underline::Dashed,
                    Some(Some(_)) => {
                        notes.push(Note::Unmodelled(4));
                        r.underline
                    }
                }
            }
            21 => r.underline = Underline::Double,
            24 => r.underline = Underline::None,
            5 => r.blink = true,
            25 => r.blink = false,
            7 => r.reverse = true,
            27 => r.reverse = false,
            9 => r.strike = true,
            29 => r.strike = false,
            30..=37 => r.fg = Colour::Index((code - 30) as u8),
            90..=97 => r.fg = Colour::Index((code - 90 + 8) as u8),
            39 => r.fg = Colour::Default,
            40..=47 => r.bg = Colour::Index((code - 40) as u8),
            100..=107 => r.bg = Colour::Index((code - 100 + 8) as u8),
            49 => r.bg = Colour::Default,
            59 => r.underline_colour = Colour::Default,
            38 | 48 | 58 => {
                let (colour, used) = extended(params, i);
                i += used;
                match colour {
                    Some(c) if code == 38 => r.fg = c,
                    Some(c) if code == 48 => r.bg = c,
                    Some(c) => r.underline_colour = c,
                    None => notes.push(Note::MalformedColour(code)),
                }
            }
            other => notes.push(Note::Unmodelled(other)),
        }
        i += 1;
    }
    notes
}

/// xterm's 256-colour table for indices 16..=255 (6x6x6 cube with levels 0,95,135,175,215,255,
/// then the 24-step grey ramp 8+10*i). Indices 0..=15 are configurable in every terminal, so
/// no value is given for them.
pub fn xterm_rgb(index: u8) -> Option<(u8, u8, u8)> {
    let level = |v: u8| if v == 0 { 0 } else { 55 + 40 * v };
    match index {
        0..=15 => None,
        16..=231 => {
            let i = index - 16;
            Some((level(i / 36), level(i / 6 % 6), level(i % 6)))
        }
        _ => {
            let v = 8 + 10 * (index - 232);
            Some((v, v, v))
        }
    }
}

#[cfg(test)]
mod tests {
    use super::*;

    fn p(s: &str) -> Vec<Param> {
        if s.is_empty() {
            return vec![];
        }
        s.split(';')
            .map(|g| g.split(':').map(|v| v.parse().ok()).collect())
            .collect()
    }

    #[test]
    fn basics() {
        let mut r = Rendition::default();
        assert!(apply(&mut r, &p("1;4:3;38;2;1;2;3;48:2::4:5:6;58;5;9")).is_empty());
        assert_eq!(r.fg, Colour::Rgb(1, 2, 3));
        assert_eq!(r.bg, Colour::Rgb(4, 5, 6));
        assert_eq!(r.underline_colour, Colour::Index(9));
        assert!(r.bold && r.underline == Underline::Curly);
        apply(&mut r, &p("22;24;39"));
        assert!(!r.bold && r.underline == Underline::None && r.fg == Colour::Default);
        apply(&mut r, &p("38;2;1;2;3;1"));
        assert!(r.bold && r.fg == Colour::Rgb(1, 2, 3));
        apply(&mut r, &p(""));
        assert_eq!(r, Rendition::default());
        assert_eq!(xterm_rgb(16), Some((0, 0, 0)));
        assert_eq!(xterm_rgb(231), Some((255, 255, 255)));
        assert_eq!(xterm_rgb(244), Some((128, 128, 128)));
        assert_eq!(xterm_rgb(196), Some((255, 0, 0)));
    }
}
