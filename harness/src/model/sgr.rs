//! reference model `sgr` (filled in by the property that needs it)
