//! reference model `kitty` (filled in by the property that needs it)
