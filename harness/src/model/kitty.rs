//! Reference model of the kitty terminal graphics protocol, written from the protocol
//! documentation (sw.kovidgoyal.net/kitty/graphics-protocol) and RFC 4648; it shares no code
//! with the library under test.
//!
//! Three layers:
//!  * `tokenize`  - splits a byte stream into APC strings, `ESC 7`, `ESC 8` and CSI sequences;
//!    everything else is an error ("stray bytes").
//!  * `parse_graphics` - `G<key>=<value>(,<key>=<value>)*[;<base64 payload>]` with the key table
//!    of the documentation (single letter keys; `a t o d` take one character, `z H V` a signed
//!    and all other keys an unsigned 32-bit decimal integer).
//!  * `KittyTerm` - a small image store: chunked transmissions (`m=1` ... `m=0`) are assembled
//!    and base64-decoded; `a=p` creates/replaces placements keyed by `(i, p)`; `a=d,d=i|I`
//!    deletes. The protocol rule that placement id 0 means "unspecified" is applied on both
//!    sides: a put with `p=0` always creates a new anonymous placement, a delete with `p=0`
//!    (or no `p`) removes every placement of the image.
use std::collections::BTreeMap;

// --------------------------------------------------------------------------------------------
// RFC 4648 base64 (private: `model::b64` belongs to another property)
// --------------------------------------------------------------------------------------------

fn b64_val(c: u8) -> Option<u8> {
    match c {
        b'A'..=b'Z' => Some(c - b'A'),
        b'a'..=b'z' => Some(c - b'a' + 26),
        b'0'..=b'9' => Some(c - b'0' + 52),
        b'+' => Some(62),
        b'/' => Some(63),
        _ => None,
    }
}

/// Strict RFC 4648 section 4 decoder: length a multiple of four, alphabet `A-Za-z0-9+/`,
/// padding `=` only as the last one or two characters. (Non-zero pad bits are not rejected:
/// RFC 4648 3.5 leaves that to the decoder.)
pub fn b64_decode(data: &[u8]) -> Result<Vec<u8>, String> {
    if data.len() % 4 != 0 {
        return Err(format!("base64 length {} is not a multiple of 4", data.len()));
    }
    let mut out = Vec::with_capacity(data.len() / 4 * 3);
    let quanta = data.len() / 4;
    for (qi, q) in data.chunks(4).enumerate() {
        let last = qi + 1 == quanta;
        let pad = q.iter().rev().take_while(|c| **c == b'=').count();
        if pad > 2 || (pad > 0 && !last) {
            return Err(format!("base64 padding in the middle (quantum {qi})"));
        }
        let mut acc: u32 = 0;
        for (k, c) in q.iter().enumerate() {
            let v = if k >= 4 - pad {
                0
            } else {
                b64_val(*c).ok_or_else(|| format!("byte 0x{:02x} is not in the base64 alphabet", c))?
            };
            acc = (acc << 6) | v as u32;
        }
        out.push((acc >> 16) as u8);
        if pad < 2 {
            out.push((acc >> 8) as u8);
        }
        if pad < 1 {
            out.push(acc as u8);
        }
    }
    Ok(out)
}

// --------------------------------------------------------------------------------------------
// byte stream -> tokens
// --------------------------------------------------------------------------------------------

#[derive(Debug, Clone, PartialEq, Eq)]
pub enum Tok {
    /// body of `ESC _ <body> ESC \`
    Apc(Vec<u8>),
    /// `ESC 7` (DECSC)
    SaveCursor,
    /// `ESC 8` (DECRC)
    RestoreCursor,
    /// `ESC [ <params> <final>`
    Csi { params: Vec<u8>, fin: u8 },
}

pub fn tokenize(bytes: &[u8]) -> Result<Vec<Tok>, String> {
    let mut toks = Vec::new();
    let mut i = 0;
    while i < bytes.len() {
        if bytes[i] != 0x1b {
            return Err(format!("stray byte 0x{:02x} at offset {i} outside any escape sequence", bytes[i]));
        }
        let Some(&kind) = bytes.get(i + 1) else {
            return Err("lone ESC at end of output".into());
        };
        match kind {
            b'_' => {
                let start = i + 2;
                let mut j = start;
                loop {
                    match bytes.get(j) {
                        None => return Err(format!("APC starting at offset {i} is not terminated by ESC \\")),
                        Some(0x1b) => {
                            if bytes.get(j + 1) == Some(&b'\\') {
                                break;
                            }
                            return Err(format!("ESC inside APC at offset {j} is not the string terminator"));
                        }
                        Some(b) if *b < 0x20 || *b > 0x7e => {
                            return Err(format!("byte 0x{:02x} inside APC at offset {j}", b));
                        }
                        Some(_) => j += 1,
                    }
                }
                toks.push(Tok::Apc(bytes[start..j].to_vec()));
                i = j + 2;
            }
            b'7' => {
                toks.push(Tok::SaveCursor);
                i += 2;
            }
            b'8' => {
                toks.push(Tok::RestoreCursor);
                i += 2;
            }
            b'[' => {
                let mut j = i + 2;
                while j < bytes.len() && (0x30..=0x3f).contains(&bytes[j]) {
                    j += 1;
                }
                let params = bytes[i + 2..j].to_vec();
                while j < bytes.len() && (0x20..=0x2f).contains(&bytes[j]) {
                    j += 1;
                }
                match bytes.get(j) {
                    Some(f) if (0x40..=0x7e).contains(f) => {
                        toks.push(Tok::Csi { params, fin: *f });
                        i = j + 1;
                    }
                    _ => return Err(format!("CSI at offset {i} has no final byte")),
                }
            }
            other => return Err(format!("unknown escape ESC 0x{:02x} at offset {i}", other)),
        }
    }
    Ok(toks)
}

// --------------------------------------------------------------------------------------------
// APC body -> graphics command
// --------------------------------------------------------------------------------------------

#[derive(Debug, Clone, Copy, PartialEq, Eq)]
pub enum Val {
    Char(u8),
    Uint(u32),
    Int(i64),
}

#[derive(Debug, Clone, Default)]
pub struct Cmd {
    pub keys: BTreeMap<u8, Val>,
    pub payload: Vec<u8>,
}

impl Cmd {
    pub fn uint(&self, k: u8) -> Option<u32> {
        match self.keys.get(&k) {
            Some(Val::Uint(v)) => Some(*v),
            _ => None,
        }
    }
    pub fn ch(&self, k: u8) -> Option<u8> {
        match self.keys.get(&k) {
            Some(Val::Char(v)) => Some(*v),
            _ => None,
        }
    }
    pub fn describe(&self) -> String {
        let mut s = String::new();
        for (k, v) in &self.keys {
            if !s.is_empty() {
                s.push(',');
            }
            match v {
                Val::Char(c) => s.push_str(&format!("{}={}", *k as char, *c as char)),
                Val::Uint(u) => s.push_str(&format!("{}={}", *k as char, u)),
                Val::Int(i) => s.push_str(&format!("{}={}", *k as char, i)),
            }
        }
        if !self.payload.is_empty() {
            s.push_str(&format!(";<{} payload bytes>", self.payload.len()));
        }
        s
    }
}

const CHAR_KEYS: &[u8] = b"atod";
const INT_KEYS: &[u8] = b"zHV";
const UINT_KEYS: &[u8] = b"qfsvSOiIpmxywhXYcrCUPQ";

pub fn parse_graphics(body: &[u8]) -> Result<Cmd, String> {
    if body.first() != Some(&b'G') {
        return Err("APC string is not a graphics command (does not start with 'G')".into());
    }
    let rest = &body[1..];
    let (control, payload) = match rest.iter().position(|b| *b == b';') {
        Some(p) => (&rest[..p], &rest[p + 1..]),
        None => (rest, &rest[rest.len()..]),
    };
    let mut cmd = Cmd::default();
    if !control.is_empty() {
        for kv in control.split(|b| *b == b',') {
            if kv.len() < 3 || kv[1] != b'=' {
                return Err(format!("control entry {:?} is not <key>=<value>", String::from_utf8_lossy(kv)));
            }
            let k = kv[0];
            let v = &kv[2..];
            let val = if CHAR_KEYS.contains(&k) {
                if v.len() != 1 || !v[0].is_ascii_alphabetic() {
                    return Err(format!("key {} needs a single letter, got {:?}", k as char, String::from_utf8_lossy(v)));
                }
                Val::Char(v[0])
            } else if UINT_KEYS.contains(&k) || INT_KEYS.contains(&k) {
                let (neg, digits) = if INT_KEYS.contains(&k) && v[0] == b'-' { (true, &v[1..]) } else { (false, v) };
                if digits.is_empty() || digits.len() > 12 || !digits.iter().all(|d| d.is_ascii_digit()) {
                    return Err(format!("key {} needs a decimal integer, got {:?}", k as char, String::from_utf8_lossy(v)));
                }
                let n: u64 = std::str::from_utf8(digits).unwrap().parse().unwrap();
                if n > u32::MAX as u64 {
                    return Err(format!("key {} value {} exceeds the 32-bit limit 4294967295", k as char, n));
                }
                if INT_KEYS.contains(&k) {
                    Val::Int(if neg { -(n as i64) } else { n as i64 })
                } else {
                    Val::Uint(n as u32)
                }
            } else {
                return Err(format!("unknown control key {:?}", k as char));
            };
            if cmd.keys.insert(k, val).is_some() {
                return Err(format!("control key {} given twice", k as char));
            }
        }
    }
    if let Some(b) = payload.iter().find(|b| b64_val(**b).is_none() && **b != b'=') {
        return Err(format!("payload byte 0x{:02x} is not base64", b));
    }
    cmd.payload = payload.to_vec();
    Ok(cmd)
}

// --------------------------------------------------------------------------------------------
// reference terminal
// --------------------------------------------------------------------------------------------

#[derive(Debug, Clone, PartialEq, Eq)]
pub struct StoredImage {
    pub width: u32,
    pub height: u32,
    /// bytes per pixel (3 or 4)
    pub bpp: u32,
    pub data: Vec<u8>,
}

#[derive(Debug, Clone, PartialEq, Eq, PartialOrd, Ord, Hash)]
pub struct Placement {
    pub image: u32,
    /// 0 = anonymous (created with p unspecified)
    pub pid: u32,
    /// cursor cell (row, col) at the time of the put
    pub at: (u32, u32),
    /// unique, increasing: lets callers attach their own bookkeeping
    pub serial: u64,
}

#[derive(Debug, Clone)]
pub struct Chunk {
    pub len: usize,
    pub more: u32,
    /// control keys present on a continuation chunk other than m and q
    pub extra_keys: Vec<u8>,
    pub q: Option<u32>,
}

#[derive(Debug, Clone)]
struct Pending {
    id: u32,
    width: u32,
    height: u32,
    format: u32,
    chunks: Vec<Chunk>,
    payload: Vec<u8>,
    /// set when '=' padding occurs in a chunk that is not the last
    pad_inside: bool,
}

#[derive(Debug, Clone)]
pub enum Outcome {
    /// chunk accepted, transmission still open
    ChunkPending,
    /// transmission finished and stored
    Transmitted { id: u32, width: u32, height: u32, format: u32, chunks: Vec<Chunk>, bytes: usize },
    /// placement created (or replaced when `replaced`)
    Put { id: u32, pid: u32, serial: u64, replaced: bool, at: (u32, u32) },
    /// delete executed; `removed` are the placements that disappeared
    Deleted { id: u32, pid: u32, removed: Vec<Placement>, freed: bool },
    /// the terminal would answer with an error (code, text)
    Rejected { code: &'static str, text: String },
}

#[derive(Debug, Clone, Default)]
pub struct KittyTerm {
    pub images: BTreeMap<u32, StoredImage>,
    pub placements: Vec<Placement>,
    pending: Option<Pending>,
    pub cursor: (u32, u32),
    saved: Option<(u32, u32)>,
    next_serial: u64,
}

impl KittyTerm {
    pub fn new() -> Self {
        Self::default()
    }

    pub fn transmission_open(&self) -> bool {
        self.pending.is_some()
    }

    /// The terminal reported an error for this image: it does not hold it (any more), and with the
    /// image its placements are gone.
    pub fn forget_image(&mut self, id: u32) {
        self.images.remove(&id);
        self.placements.retain(|pl| pl.image != id);
    }

    /// Non-graphics tokens: only cursor save / restore / CUP are modelled.
    pub fn control(&mut self, tok: &Tok) -> Result<(), String> {
        match tok {
            Tok::SaveCursor => {
                self.saved = Some(self.cursor);
                Ok(())
            }
            Tok::RestoreCursor => {
                self.cursor = self.saved.unwrap_or((0, 0));
                Ok(())
            }
            Tok::Csi { params, fin: b'H' } => {
                let text = String::from_utf8_lossy(params).to_string();
                let mut it = text.split(';');
                let num = |s: Option<&str>| -> Result<u32, String> {
                    match s {
                        None | Some("") => Ok(1),
                        Some(t) => t.parse::<u32>().map_err(|_| format!("bad CUP parameter {t:?}")),
                    }
                };
                let row = num(it.next())?;
                let col = num(it.next())?;
                if it.next().is_some() {
                    return Err(format!("CUP with more than two parameters: {text:?}"));
                }
                self.cursor = (row.max(1) - 1, col.max(1) - 1);
                Ok(())
            }
            Tok::Csi { params, fin } => Err(format!(
                "control sequence CSI {} {} is not modelled",
                String::from_utf8_lossy(params),
                *fin as char
            )),
            Tok::Apc(_) => Err("APC passed to control()".into()),
        }
    }

    fn finish(&mut self, p: Pending) -> Outcome {
        if p.pad_inside {
            return Outcome::Rejected {
                code: "EINVAL",
                text: "base64 padding inside a chunk that is not the last one".into(),
            };
        }
        let data = match b64_decode(&p.payload) {
            Ok(d) => d,
            Err(e) => return Outcome::Rejected { code: "EINVAL", text: format!("payload is not valid base64: {e}") },
        };
        let bpp = p.format / 8;
        let need = p.width as u64 * p.height as u64 * bpp as u64;
        if data.len() as u64 != need {
            return Outcome::Rejected {
                code: "ENODATA",
                text: format!(
                    "payload decodes to {} bytes but s={} v={} f={} needs {}",
                    data.len(),
                    p.width,
                    p.height,
                    p.format,
                    need
                ),
            };
        }
        let bytes = data.len();
        self.images.insert(p.id, StoredImage { width: p.width, height: p.height, bpp, data });
        Outcome::Transmitted { id: p.id, width: p.width, height: p.height, format: p.format, chunks: p.chunks, bytes }
    }

    pub fn exec(&mut self, c: &Cmd) -> Outcome {
        // a chunked transmission swallows every graphics command until m=0
        if let Some(mut p) = self.pending.take() {
            let extra: Vec<u8> = c.keys.keys().copied().filter(|k| *k != b'm' && *k != b'q').collect();
            let more = c.uint(b'm').unwrap_or(0);
            if p.payload.contains(&b'=') {
                p.pad_inside = true;
            }
            p.payload.extend_from_slice(&c.payload);
            p.chunks.push(Chunk { len: c.payload.len(), more, extra_keys: extra, q: c.uint(b'q') });
            if more > 1 {
                return Outcome::Rejected { code: "EINVAL", text: format!("m={more}") };
            }
            if more == 1 {
                self.pending = Some(p);
                return Outcome::ChunkPending;
            }
            return self.finish(p);
        }
        if let Some(q) = c.uint(b'q') {
            if q > 2 {
                return Outcome::Rejected { code: "EINVAL", text: format!("q={q}") };
            }
        }
        let action = c.ch(b'a').unwrap_or(b't');
        match action {
            b't' => {
                let format = c.uint(b'f').unwrap_or(32);
                if ![24, 32].contains(&format) {
                    return Outcome::Rejected { code: "EINVAL", text: format!("pixel format f={format} is not modelled") };
                }
                if let Some(t) = c.ch(b't') {
                    if t != b'd' {
                        return Outcome::Rejected { code: "EINVAL", text: format!("transmission medium t={} is not modelled", t as char) };
                    }
                }
                if let Some(o) = c.ch(b'o') {
                    return Outcome::Rejected { code: "EINVAL", text: format!("compression o={} is not modelled", o as char) };
                }
                let id = c.uint(b'i').unwrap_or(0);
                if id == 0 {
                    return Outcome::Rejected { code: "EINVAL", text: "transmission without an image id (i missing or 0) can never be referenced".into() };
                }
                let (Some(width), Some(height)) = (c.uint(b's'), c.uint(b'v')) else {
                    return Outcome::Rejected { code: "EINVAL", text: "transmission without s / v".into() };
                };
                if width == 0 || height == 0 {
                    return Outcome::Rejected { code: "EINVAL", text: format!("zero width/height not allowed (s={width}, v={height})") };
                }
                let more = c.uint(b'm').unwrap_or(0);
                if more > 1 {
                    return Outcome::Rejected { code: "EINVAL", text: format!("m={more}") };
                }
                let p = Pending {
                    id,
                    width,
                    height,
                    format,
                    chunks: vec![Chunk { len: c.payload.len(), more, extra_keys: vec![], q: c.uint(b'q') }],
                    payload: c.payload.clone(),
                    pad_inside: false,
                };
                if more == 1 {
                    self.pending = Some(p);
                    Outcome::ChunkPending
                } else {
                    self.finish(p)
                }
            }
            b'p' => {
                if !c.payload.is_empty() {
                    return Outcome::Rejected { code: "EINVAL", text: "put command with a payload".into() };
                }
                let id = c.uint(b'i').unwrap_or(0);
                if id == 0 {
                    return Outcome::Rejected { code: "EINVAL", text: "put without image id".into() };
                }
                if !self.images.contains_key(&id) {
                    return Outcome::Rejected { code: "ENOENT", text: format!("put refers to image id {id} which was never transmitted") };
                }
                let pid = c.uint(b'p').unwrap_or(0);
                let mut replaced = false;
                if pid != 0 {
                    let before = self.placements.len();
                    self.placements.retain(|pl| !(pl.image == id && pl.pid == pid));
                    replaced = self.placements.len() != before;
                }
                self.next_serial += 1;
                let serial = self.next_serial;
                self.placements.push(Placement { image: id, pid, at: self.cursor, serial });
                // C=1 keeps the cursor where it is; without it the cursor moves after the image.
                // Cursor motion caused by images is not modelled (callers set the cursor).
                Outcome::Put { id, pid, serial, replaced, at: self.cursor }
            }
            b'd' => {
                let what = c.ch(b'd').unwrap_or(b'a');
                match what {
                    b'a' | b'A' => {
                        let removed = std::mem::take(&mut self.placements);
                        if what == b'A' {
                            self.images.clear();
                        }
                        Outcome::Deleted { id: 0, pid: 0, removed, freed: what == b'A' }
                    }
                    b'i' | b'I' => {
                        let id = c.uint(b'i').unwrap_or(0);
                        if id == 0 {
                            return Outcome::Rejected { code: "EINVAL", text: "delete by id without an image id".into() };
                        }
                        let pid = c.uint(b'p').unwrap_or(0);
                        let mut removed = vec![];
                        self.placements.retain(|pl| {
                            // p = 0 means "unspecified": every placement of the image goes
                            let hit = pl.image == id && (pid == 0 || pl.pid == pid);
                            if hit {
                                removed.push(pl.clone());
                            }
                            !hit
                        });
                        let mut freed = false;
                        if what == b'I' && !self.placements.iter().any(|pl| pl.image == id) {
                            freed = self.images.remove(&id).is_some();
                        }
                        Outcome::Deleted { id, pid, removed, freed }
                    }
                    other => Outcome::Rejected { code: "EINVAL", text: format!("delete mode d={} is not modelled", other as char) },
                }
            }
            other => Outcome::Rejected { code: "EINVAL", text: format!("action a={} is not modelled", other as char) },
        }
    }
}

#[cfg(test)]
mod tests {
    use super::*;

    #[test]
    fn rfc4648_vectors() {
        for (e, d) in [("", ""), ("Zg==", "f"), ("Zm8=", "fo"), ("Zm9v", "foo"), ("Zm9vYg==", "foob"), ("Zm9vYmE=", "fooba"), ("Zm9vYmFy", "foobar")] {
            assert_eq!(b64_decode(e.as_bytes()).unwrap(), d.as_bytes());
        }
        assert!(b64_decode(b"Zg=").is_err());
        assert!(b64_decode(b"Z===").is_err());
        assert!(b64_decode(b"Zg==Zg==").is_err());
        assert!(b64_decode(b"Zm9-").is_err());
    }

    #[test]
    fn p0_is_unspecified() {
        let mut t = KittyTerm::new();
        let tx = parse_graphics(b"Ga=t,f=32,i=7,s=1,v=1;AAAAAA==").unwrap();
        assert!(matches!(t.exec(&tx), Outcome::Transmitted { .. }));
        for p in ["Ga=p,i=7,p=0", "Ga=p,i=7", "Ga=p,i=7,p=5", "Ga=p,i=7,p=5"] {
            t.exec(&parse_graphics(p.as_bytes()).unwrap());
        }
        assert_eq!(t.placements.len(), 3); // two anonymous, one p=5 (replaced once)
        t.exec(&parse_graphics(b"Ga=d,d=i,i=7,p=5").unwrap());
        assert_eq!(t.placements.len(), 2);
        t.exec(&parse_graphics(b"Ga=d,d=i,i=7,p=0").unwrap());
        assert_eq!(t.placements.len(), 0);
    }
}
