//! Reference model of a byte queue with flush-delimited chunks, written from the property
//! statement: bytes come out in the order written, exactly once; the reported length is the
//! number of readable bytes; dropping pending frames removes only whole flush-delimited groups
//! none of whose bytes has been handed out yet.
#[derive(Debug, Clone, PartialEq, Eq, Hash)]
pub struct ByteModel {
    /// pending (byte, frame id); frame id = number of flush calls before the byte was written
    pub pending: Vec<(u8, u32)>,
    /// frame ids of which at least one byte has been consumed
    pub started: Vec<u32>,
    pub flushes: u32,
}

impl ByteModel {
    pub fn new() -> Self {
        ByteModel { pending: vec![], started: vec![], flushes: 0 }
    }
    pub fn write(&mut self, bytes: &[u8]) {
        for b in bytes {
            self.pending.push((*b, self.flushes));
        }
    }
    pub fn flush(&mut self) {
        self.flushes += 1;
    }
    /// consume n bytes from the front (n <= pending.len())
    pub fn consume(&mut self, n: usize) -> Vec<u8> {
        let out: Vec<(u8, u32)> = self.pending.drain(..n.min(self.pending.len())).collect();
        for (_, f) in &out {
            if !self.started.contains(f) {
                self.started.push(*f);
            }
        }
        out.into_iter().map(|(b, _)| b).collect()
    }
    pub fn len(&self) -> usize {
        self.pending.len()
    }
    /// Is `remaining` (bytes still readable after a drop) a legal outcome of dropping frames?
    /// It must be a prefix of pending; every dropped byte must belong to a frame that has not
    /// started and that is dropped as a whole.
    pub fn legal_drop(&self, remaining: &[u8]) -> Result<(), String> {
        if remaining.len() > self.pending.len() {
            return Err("more bytes readable after the drop than before".into());
        }
        for (i, b) in remaining.iter().enumerate() {
            if self.pending[i].0 != *b {
                return Err(format!("byte {i} after the drop is {b}, expected {} (not a prefix of the pending bytes)", self.pending[i].0));
            }
        }
        let kept = &self.pending[..remaining.len()];
        let dropped = &self.pending[remaining.len()..];
        let kept_frames: std::collections::BTreeSet<u32> = kept.iter().map(|(_, g)| *g).collect();
        for (b, f) in dropped {
            if self.started.contains(f) {
                return Err(format!("byte {b} of frame {f} was dropped although that frame had started transmission"));
            }
            if kept_frames.contains(f) {
                return Err(format!("frame {f} was dropped only partially (byte {b} dropped, earlier bytes kept)"));
            }
        }
        Ok(())
    }
    pub fn apply_drop(&mut self, remaining: usize) {
        self.pending.truncate(remaining);
    }
}
