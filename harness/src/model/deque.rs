//! reference model `deque` (filled in by the property that needs it)
