//! Reference models, written from the specifications and free of the library's code.
pub mod slice;
pub mod screen;
pub mod ecma48;
pub mod sgr;
pub mod kitty;
pub mod sixel;
pub mod regex;
pub mod b64;
pub mod deque;
pub mod keymap;
pub mod kernel;
pub mod keytable;
pub mod window;
