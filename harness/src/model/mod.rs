//! Reference models, written from the specifications and free of the library's code.
pub mod slice;
