//! List-of-lists window model for surface views (C07), written from Python/NumPy semantics:
//! a window is a plain matrix (`Vec<Vec<_>>`) of *base coordinates*; `view(rows, cols)` is
//! `m[rows, cols]` with step-1 slices resolved by `model::slice::resolve` (an integer selects
//! one row/column and keeps the axis, as the library documents), `transpose` is `zip(*m)`.
//! Nothing here looks at strides, offsets or the library's `Shape`.
use super::slice::{resolve, Form};

/// One row/column selector of the alphabet (DESIGN.md, C07).
#[derive(Debug, Clone, Copy, PartialEq, Eq, Hash)]
pub struct Sel {
    pub name: &'static str,
    pub form: Form,
    pub a: i128,
    pub b: i128,
}

pub const SELS: [Sel; 12] = [
    Sel { name: "..", form: Form::Full, a: 0, b: 0 },
    Sel { name: "1..", form: Form::From, a: 1, b: 0 },
    Sel { name: "..-1", form: Form::To, a: 0, b: -1 },
    Sel { name: "1..-1", form: Form::Range, a: 1, b: -1 },
    Sel { name: "0", form: Form::Index, a: 0, b: 0 },
    Sel { name: "-1", form: Form::Index, a: -1, b: 0 },
    Sel { name: "1..=2", form: Form::Inclusive, a: 1, b: 2 },
    Sel { name: "-2..", form: Form::From, a: -2, b: 0 },
    Sel { name: "5..", form: Form::From, a: 5, b: 0 },
    Sel { name: "2..1", form: Form::Range, a: 2, b: 1 },
    Sel { name: "..=-9", form: Form::ToInclusive, a: 0, b: -9 },
    Sel { name: "1..=-1", form: Form::Inclusive, a: 1, b: -1 },
];

/// A window: `cells[r][c]` = coordinates (row, col) of the base-surface cell shown at (r, c).
#[derive(Debug, Clone, PartialEq, Eq, Hash)]
pub struct Window {
    pub h: usize,
    pub w: usize,
    pub cells: Vec<Vec<(usize, usize)>>,
}

impl Window {
    pub fn base(h: usize, w: usize) -> Self {
        Window {
            h,
            w,
            cells: (0..h).map(|r| (0..w).map(|c| (r, c)).collect()).collect(),
        }
    }

    /// number of cells
    pub fn len(&self) -> usize {
        self.h * self.w
    }

    pub fn is_empty(&self) -> bool {
        self.len() == 0
    }

    pub fn transpose(&self) -> Self {
        Window {
            h: self.w,
            w: self.h,
            cells: (0..self.w)
                .map(|c| (0..self.h).map(|r| self.cells[r][c]).collect())
                .collect(),
        }
    }

    /// `m[rows, cols]`; an empty selection on either axis is the window without cells.
    pub fn view(&self, rows: Sel, cols: Sel) -> Self {
        let rr = resolve(rows.form, rows.a, rows.b, self.h as i128);
        let cr = resolve(cols.form, cols.a, cols.b, self.w as i128);
        match (rr, cr) {
            (Some((r0, r1)), Some((c0, c1))) => {
                let (r0, r1, c0, c1) = (r0 as usize, r1 as usize, c0 as usize, c1 as usize);
                Window {
                    h: r1 - r0,
                    w: c1 - c0,
                    cells: self.cells[r0..r1].iter().map(|row| row[c0..c1].to_vec()).collect(),
                }
            }
            _ => Window { h: 0, w: 0, cells: vec![] },
        }
    }

    /// cells in row-major order
    pub fn row_major(&self) -> Vec<(usize, usize)> {
        self.cells.iter().flat_map(|r| r.iter().copied()).collect()
    }
}
