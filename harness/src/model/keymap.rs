//! Reference model for key-chord maps (C18): a last-writer-wins, prefix-free dictionary of
//! chords, and the two rules the statement gives for the stateful matcher.
//!
//! Written from the property statement only; it shares no code with `surf_n_term::keys`.
//! The dictionary is a flat ordered map from complete chords to values -- deliberately not a
//! trie -- so prefix/extension supersession is computed by scanning, not by structure.
use std::collections::BTreeMap;

#[derive(Debug, Clone, PartialEq, Eq, Hash)]
pub enum Lookup<V> {
    /// the chord is bound (and not superseded) to this value
    Success(V),
    /// the chord is a proper prefix of at least one bound chord
    Continue,
    Failure,
}

impl<V> Lookup<V> {
    pub fn kind(&self) -> &'static str {
        match self {
            Lookup::Success(_) => "success",
            Lookup::Continue => "continue",
            Lookup::Failure => "failure",
        }
    }
}

/// What a registration displaced at exactly the registered chord (documented return value of
/// `register`: "previously registered value or key_map associated with provided chord").
#[derive(Debug, Clone, PartialEq, Eq)]
pub enum Displaced<K, V> {
    /// the chord was neither bound nor a prefix of a bound chord
    Nothing,
    /// the chord was bound to this value
    Value(V),
    /// the chord was a proper prefix of these bound chords (given as the remaining keys
    /// after the chord, with their values)
    Extensions(BTreeMap<Vec<K>, V>),
}

#[derive(Debug, Clone, PartialEq, Eq, Default)]
pub struct Dict<K: Ord + Clone, V: Clone> {
    bound: BTreeMap<Vec<K>, V>,
}

fn is_proper_prefix<K: PartialEq>(p: &[K], c: &[K]) -> bool {
    p.len() < c.len() && c[..p.len()] == *p
}

impl<K: Ord + Clone, V: Clone> Dict<K, V> {
    pub fn new() -> Self {
        Self { bound: BTreeMap::new() }
    }

    /// Bind `chord` to `value`; bound chords that are proper prefixes or extensions of it are
    /// superseded (removed). The empty chord binds nothing.
    pub fn register(&mut self, chord: &[K], value: V) -> Displaced<K, V> {
        if chord.is_empty() {
            return Displaced::Nothing;
        }
        let mut displaced = match self.bound.remove(chord) {
            Some(v) => Displaced::Value(v),
            None => Displaced::Nothing,
        };
        let related: Vec<Vec<K>> = self
            .bound
            .keys()
            .filter(|c| is_proper_prefix(chord, c) || is_proper_prefix(c, chord))
            .cloned()
            .collect();
        let mut extensions = BTreeMap::new();
        for c in related {
            let v = self.bound.remove(&c).unwrap();
            if is_proper_prefix(chord, &c) {
                extensions.insert(c[chord.len()..].to_vec(), v);
            }
        }
        if !extensions.is_empty() {
            displaced = Displaced::Extensions(extensions);
        }
        self.bound.insert(chord.to_vec(), value);
        displaced
    }

    pub fn lookup(&self, chord: &[K]) -> Lookup<V> {
        if let Some(v) = self.bound.get(chord) {
            return Lookup::Success(v.clone());
        }
        if self.bound.keys().any(|c| is_proper_prefix(chord, c)) {
            return Lookup::Continue;
        }
        Lookup::Failure
    }

    /// The bound chords with their values, sorted.
    pub fn list(&self) -> Vec<(Vec<K>, V)> {
        self.bound.iter().map(|(k, v)| (k.clone(), v.clone())).collect()
    }

    pub fn len(&self) -> usize {
        self.bound.len()
    }

    pub fn is_empty(&self) -> bool {
        self.bound.is_empty()
    }

    /// Override merging: every binding of `other` registered on top of `self`.
    pub fn register_override(&mut self, other: &Self) {
        for (c, v) in other.bound.iter() {
            self.register(c, v.clone());
        }
    }

    /// `key` begins some bound chord
    pub fn begins_chord(&self, key: &K) -> bool {
        self.bound.keys().any(|c| c.first() == Some(key))
    }

    /// `key` occurs anywhere in some bound chord
    pub fn occurs(&self, key: &K) -> bool {
        self.bound.keys().any(|c| c.contains(key))
    }

    /// Internal consistency of the model itself: no bound chord is a proper prefix of another.
    pub fn prefix_free(&self) -> bool {
        let keys: Vec<&Vec<K>> = self.bound.keys().collect();
        keys.iter().all(|a| keys.iter().all(|b| !is_proper_prefix(a, b)))
    }
}

/// What the statement demands of the stateful matcher's answer at one key of a typed sequence.
#[derive(Debug, Clone, PartialEq, Eq)]
pub enum Expect<V> {
    /// last key of a bound chord typed from an idle state (`after_unbound == false`), or
    /// immediately after an unbound key
    Fire { value: V, after_unbound: bool },
    /// inside (not at the end of) a bound chord typed from an idle state
    Silent,
    /// the statement only demands soundness here (see `sound`)
    Free,
}

/// The demands of the statement on a whole typed key sequence, fed to a fresh matcher.
///
/// * Idle positions: the start, and the position after a demanded firing. A bound chord typed
///   from an idle position fires exactly at its last key (silent before).
/// * A key that begins no bound chord is "unbound". The rule "an unbound key never prevents
///   the chord typed immediately after it from firing" is applied where it is unambiguous:
///   when the unbound key is met at an idle / just-after-unbound position (nothing can be
///   pending), or when it occurs in no bound chord at all (so it cannot continue a pending
///   chord either). After it, a bound chord must fire at its last key.
/// * Everything else (e.g. a partly typed chord abandoned by a key that itself begins a chord)
///   is left to `sound`.
pub fn matcher_demands<K: Ord + Clone, V: Clone>(dict: &Dict<K, V>, keys: &[K]) -> Vec<Expect<V>> {
    let mut out = vec![Expect::Free; keys.len()];
    #[derive(PartialEq)]
    enum At {
        Idle,
        AfterUnbound,
        Unknown,
    }
    let mut at = At::Idle;
    let mut p = 0;
    while p < keys.len() {
        match at {
            At::Idle | At::AfterUnbound => {
                // the (unique, by prefix-freeness) bound chord starting here, if completely typed
                let hit = (p + 1..=keys.len()).find_map(|q| match dict.lookup(&keys[p..q]) {
                    Lookup::Success(v) => Some((q, v)),
                    _ => None,
                });
                if let Some((q, v)) = hit {
                    if at == At::Idle {
                        for e in out[p..q - 1].iter_mut() {
                            *e = Expect::Silent;
                        }
                    }
                    out[q - 1] = Expect::Fire { value: v, after_unbound: at == At::AfterUnbound };
                    at = At::Idle;
                    p = q;
                } else if !dict.begins_chord(&keys[p]) {
                    at = At::AfterUnbound;
                    p += 1;
                } else {
                    // keys[p] begins a bound chord but no bound chord is completed from here:
                    // keys[p..q] is the longest typed proper prefix of a bound chord
                    let mut q = p + 1;
                    while q < keys.len() && matches!(dict.lookup(&keys[p..q + 1]), Lookup::Continue) {
                        q += 1;
                    }
                    if at == At::Idle {
                        for e in out[p..q].iter_mut() {
                            *e = Expect::Silent;
                        }
                    }
                    // keys[q] (if any) abandons the chord: the statement says nothing about it
                    at = At::Unknown;
                    p = q;
                }
            }
            At::Unknown => {
                if !dict.occurs(&keys[p]) {
                    at = At::AfterUnbound;
                }
                p += 1;
            }
        }
    }
    out
}

/// Soundness: an answer `value` at position `i` is only acceptable when some chord ending at
/// key `i` of the typed sequence is bound to `value`.
pub fn sound<K: Ord + Clone, V: Clone + PartialEq>(dict: &Dict<K, V>, keys: &[K], i: usize, value: &V) -> bool {
    (0..=i).any(|p| matches!(dict.lookup(&keys[p..=i]), Lookup::Success(ref v) if v == value))
}

#[cfg(test)]
mod tests {
    use super::*;

    #[test]
    fn supersession_both_directions() {
        let mut d: Dict<u8, u32> = Dict::new();
        assert_eq!(d.register(&[1], 0), Displaced::Nothing);
        assert_eq!(d.lookup(&[1]), Lookup::Success(0));
        assert_eq!(d.lookup(&[1, 2]), Lookup::Failure);
        assert_eq!(d.register(&[1, 2], 1), Displaced::Nothing); // prefix [1] superseded silently
        assert_eq!(d.register(&[1, 3, 4], 2), Displaced::Nothing);
        assert_eq!(d.lookup(&[1]), Lookup::Continue);
        assert_eq!(d.lookup(&[1, 3]), Lookup::Continue);
        assert_eq!(d.lookup(&[1, 2]), Lookup::Success(1));
        assert!(d.prefix_free());
        let r = d.register(&[1], 3);
        assert_eq!(
            r,
            Displaced::Extensions([(vec![2], 1), (vec![3, 4], 2)].into_iter().collect())
        );
        assert_eq!(d.list(), vec![(vec![1], 3)]);
        assert_eq!(d.register(&[1], 4), Displaced::Value(3));
    }

    #[test]
    fn demands() {
        let mut d: Dict<char, u32> = Dict::new();
        d.register(&['a', 'b'], 0);
        d.register(&['c'], 1);
        let k: Vec<char> = "abxabacb".chars().collect();
        let e = matcher_demands(&d, &k);
        assert_eq!(
            e,
            vec![
                Expect::Silent,
                Expect::Fire { value: 0, after_unbound: false },
                Expect::Free, // x unbound
                Expect::Free, // a after unbound (no silence demanded)
                Expect::Fire { value: 0, after_unbound: true },
                Expect::Silent, // a from idle
                Expect::Free,   // c abandons "a": nothing demanded
                Expect::Free,
            ]
        );
        assert!(sound(&d, &k, 6, &1));
        assert!(!sound(&d, &k, 6, &0));
    }
}
