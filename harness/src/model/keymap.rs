//! reference model `keymap` (filled in by the property that needs it)
