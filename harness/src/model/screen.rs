//! reference model `screen` (filled in by the property that needs it)
