//! Reference VT screen: a grid of cells (blank / character / wide tail, each with a rendition)
//! plus a multiset of image placements. Semantics written from the xterm / ECMA-48 / kitty
//! documentation (not from the renderer): SGR replaces the rendition, CUP must address a cell
//! of the grid, a printed character takes the current rendition and advances the cursor by its
//! display width, overwriting one half of a wide character blanks the other half (that cell
//! keeps its rendition), printing in the pending-wrap column is undefined (poison), ECH blanks
//! `n` cells from the cursor with the current background only (BCE) and does not move the
//! cursor, image placement happens at the cursor, image deletion addresses one placement or
//! all placements of that image content.
use surf_n_term::{Face, FaceAttrs, Image, Position, Surface, TerminalCommand};

#[derive(Debug, Clone, PartialEq, Eq, Hash, PartialOrd, Ord)]
pub enum Content {
    Blank,
    Char(char),
    /// right half of the wide character one column to the left
    Tail,
    /// result of an undefined operation; never equal to anything (see `visible`)
    Poison,
}

#[derive(Debug, Clone, PartialEq, Eq, Hash, PartialOrd, Ord)]
pub struct SCell {
    pub content: Content,
    pub face: Face,
}

impl SCell {
    pub fn blank() -> Self {
        SCell { content: Content::Blank, face: Face::default() }
    }
}

/// Identity of image *content* (what the terminal shows), independent of allocation.
#[derive(Debug, Clone, Copy, PartialEq, Eq, Hash, PartialOrd, Ord)]
pub struct ImgId {
    pub hash: u64,
    pub height: usize,
    pub width: usize,
}

pub fn img_id(img: &Image) -> ImgId {
    ImgId { hash: img.hash(), height: img.height(), width: img.width() }
}

#[derive(Debug, Clone, PartialEq, Eq, Hash)]
pub struct Screen {
    pub height: usize,
    pub width: usize,
    pub cells: Vec<SCell>,
    pub cursor: Option<Position>,
    pub face: Face,
    /// sorted multiset of (content, position)
    pub placements: Vec<(ImgId, Position)>,
    /// problems noticed while executing commands
    pub problems: Vec<String>,
}

pub fn char_width(c: char) -> usize {
    // same definition of display width as the library uses (unicode-width); the harness only
    // uses characters whose width is unambiguous
    match c {
        '\u{4e16}' | '\u{754c}' | '\u{3000}' => 2,
        _ => 1,
    }
}

impl Screen {
    pub fn new(height: usize, width: usize) -> Self {
        Screen {
            height,
            width,
            cells: vec![SCell::blank(); height * width],
            cursor: None,
            face: Face::default(),
            placements: vec![],
            problems: vec![],
        }
    }

    fn idx(&self, row: usize, col: usize) -> usize {
        row * self.width + col
    }

    /// blank the partner half when one half of a wide character is about to be overwritten
    fn break_wide(&mut self, row: usize, col: usize) {
        let i = self.idx(row, col);
        match self.cells[i].content {
            Content::Tail => {
                if col > 0 {
                    let j = self.idx(row, col - 1);
                    self.cells[j].content = Content::Blank;
                }
            }
            Content::Char(c) if char_width(c) == 2 => {
                if col + 1 < self.width {
                    let j = self.idx(row, col + 1);
                    if self.cells[j].content == Content::Tail {
                        self.cells[j].content = Content::Blank;
                    }
                }
            }
            _ => {}
        }
    }

    pub fn apply(&mut self, cmd: &TerminalCommand) {
        match cmd {
            TerminalCommand::Face(f) => self.face = *f,
            TerminalCommand::CursorTo(p) => {
                if p.row >= self.height || p.col >= self.width {
                    self.problems.push(format!("CursorTo({},{}) outside the {}x{} grid", p.row, p.col, self.height, self.width));
                    self.cursor = None;
                } else {
                    self.cursor = Some(*p);
                }
            }
            TerminalCommand::Char(c) => {
                let Some(cur) = self.cursor else {
                    self.problems.push(format!("Char({:?}) printed with an unknown cursor position", c));
                    return;
                };
                let w = char_width(*c);
                if cur.col + w > self.width {
                    self.problems.push(format!(
                        "Char({:?}) of width {} printed at column {} of {} (pending wrap: undefined)",
                        c, w, cur.col, self.width
                    ));
                    for col in cur.col.min(self.width.saturating_sub(1))..self.width {
                        let i = self.idx(cur.row, col);
                        self.cells[i].content = Content::Poison;
                    }
                    self.cursor = None;
                    return;
                }
                for k in 0..w {
                    self.break_wide(cur.row, cur.col + k);
                }
                let i = self.idx(cur.row, cur.col);
                self.cells[i] = SCell {
                    content: if *c == ' ' { Content::Blank } else { Content::Char(*c) },
                    face: self.face,
                };
                if w == 2 {
                    let j = self.idx(cur.row, cur.col + 1);
                    self.cells[j] = SCell { content: Content::Tail, face: self.face };
                }
                self.cursor = Some(Position::new(cur.row, cur.col + w));
            }
            TerminalCommand::EraseChars(n) => {
                let Some(cur) = self.cursor else {
                    self.problems.push("EraseChars with an unknown cursor position".to_string());
                    return;
                };
                if cur.col >= self.width {
                    self.problems.push(format!("EraseChars at column {} of {} (pending wrap)", cur.col, self.width));
                    return;
                }
                // the command says how many cells to erase: zero cells is nothing (the encoder
                // must not emit `CSI 0 X`, which a VT executes as one cell - that is C05's business)
                let n = *n;
                let end = (cur.col + n).min(self.width);
                for col in cur.col..end {
                    self.break_wide(cur.row, col);
                }
                for col in cur.col..end {
                    let i = self.idx(cur.row, col);
                    self.cells[i] = SCell {
                        content: Content::Blank,
                        face: Face::new(None, self.face.bg, FaceAttrs::EMPTY),
                    };
                }
            }
            TerminalCommand::Image(img, pos) => {
                match self.cursor {
                    Some(cur) if cur == *pos => {}
                    other => self.problems.push(format!(
                        "Image placed for position ({},{}) while the cursor is at {:?}",
                        pos.row, pos.col, other
                    )),
                }
                self.placements.push((img_id(img), *pos));
                self.placements.sort();
            }
            TerminalCommand::ImageErase(img, pos) => {
                let id = img_id(img);
                match pos {
                    Some(p) => {
                        if let Some(i) = self.placements.iter().position(|(c, q)| *c == id && q == p) {
                            self.placements.remove(i);
                        }
                    }
                    None => self.placements.retain(|(c, _)| *c != id),
                }
            }
            other => self.problems.push(format!("unexpected command from the renderer: {:?}", other)),
        }
    }

    /// What an observer sees: per cell (content, visible rendition), wide tails take the head's
    /// rendition; on a blank cell foreground / bold / italic / blink are invisible unless reverse
    /// video turns the foreground into the cell's fill.
    pub fn visible(&self) -> Vec<SCell> {
        let mut out = Vec::with_capacity(self.cells.len());
        for row in 0..self.height {
            for col in 0..self.width {
                let c = &self.cells[self.idx(row, col)];
                let mut face = c.face;
                let content = c.content.clone();
                match content {
                    Content::Tail => {
                        if col > 0 {
                            face = self.cells[self.idx(row, col - 1)].face;
                        }
                    }
                    Content::Blank => {
                        let attrs = face.attrs;
                        let keep = FaceAttrs::REVERSE | FaceAttrs::STRIKE;
                        let mut vis = FaceAttrs::EMPTY;
                        for flag in [FaceAttrs::REVERSE, FaceAttrs::STRIKE] {
                            if attrs.contains(flag) {
                                vis = vis | flag;
                            }
                        }
                        let _ = keep;
                        vis = vis | FaceAttrs::from(attrs.underline());
                        let fg = if attrs.contains(FaceAttrs::REVERSE) { face.fg } else { None };
                        face = Face::new(fg, face.bg, vis);
                    }
                    _ => {}
                }
                out.push(SCell { content, face });
            }
        }
        out
    }

    pub fn has_poison(&self) -> bool {
        self.cells.iter().any(|c| c.content == Content::Poison)
    }

    /// first difference between what two screens show
    pub fn diff(&self, other: &Screen) -> Option<String> {
        if self.placements != other.placements {
            return Some(format!("image placements {:?} vs {:?}", self.placements, other.placements));
        }
        let a = self.visible();
        let b = other.visible();
        for (i, (x, y)) in a.iter().zip(b.iter()).enumerate() {
            if x != y || x.content == Content::Poison {
                return Some(format!("cell ({},{}) shows {:?} vs {:?}", i / self.width, i % self.width, x, y));
            }
        }
        None
    }
}
