//! Reference model `regex`: regular expressions over the byte alphabet.
//!
//! Two independent deciders written from the textbook definitions (no library code):
//!
//! * [`Re`] - canonical regular expressions with Brzozowski derivatives. Smart constructors
//!   normalise modulo associativity of concatenation, associativity / commutativity /
//!   idempotence of choice and the unit / zero laws, so the set of iterated derivatives of
//!   any expression is finite (Brzozowski 1964) and `Re::Null` is the *only* canonical form
//!   with an empty language (every other form is built from non-empty sets with operators
//!   that preserve non-emptiness).
//! * [`Ast::matches_naive`] - position-set semantics evaluated directly on the combinator
//!   tree (`ends(node, starts)` = set of positions where a match of `node` beginning at one
//!   of `starts` may end). Used to validate the derivative matcher and in witness replay.
//!
//! [`Ast`] is the combinator program: exactly the constructors of the public `NFA` API.
use serde_json::{json, Value};
use std::fmt;

// ---------------------------------------------------------------------------------------
// byte sets
// ---------------------------------------------------------------------------------------

#[derive(Clone, Copy, PartialEq, Eq, PartialOrd, Ord, Hash, Debug, Default)]
pub struct ByteSet(pub [u64; 4]);

impl ByteSet {
    pub const EMPTY: ByteSet = ByteSet([0; 4]);

    pub fn single(b: u8) -> Self {
        let mut s = Self::EMPTY;
        s.insert(b);
        s
    }
    pub fn from_fn(f: impl Fn(u8) -> bool) -> Self {
        let mut s = Self::EMPTY;
        for b in 0..=255u8 {
            if f(b) {
                s.insert(b);
            }
        }
        s
    }
    pub fn insert(&mut self, b: u8) {
        self.0[(b >> 6) as usize] |= 1u64 << (b & 63);
    }
    pub fn contains(&self, b: u8) -> bool {
        self.0[(b >> 6) as usize] >> (b & 63) & 1 == 1
    }
    pub fn is_empty(&self) -> bool {
        self.0 == [0; 4]
    }
    pub fn len(&self) -> u32 {
        self.0.iter().map(|w| w.count_ones()).sum()
    }
    pub fn first(&self) -> Option<u8> {
        (0..=255u8).find(|b| self.contains(*b))
    }
    /// inclusive ranges, ascending
    pub fn ranges(&self) -> Vec<(u8, u8)> {
        let mut out: Vec<(u8, u8)> = vec![];
        for b in 0..=255u8 {
            if self.contains(b) {
                match out.last_mut() {
                    Some((_, hi)) if *hi as u16 + 1 == b as u16 => *hi = b,
                    _ => out.push((b, b)),
                }
            }
        }
        out
    }
    pub fn from_ranges(r: &[(u8, u8)]) -> Self {
        let mut s = Self::EMPTY;
        for (lo, hi) in r {
            for b in *lo..=*hi {
                s.insert(b);
            }
        }
        s
    }
}

fn show_byte(b: u8) -> String {
    match b {
        0x1b => "\\e".into(),
        b'\\' => "\\\\".into(),
        0x21..=0x7e => (b as char).to_string(),
        _ => format!("\\x{:02x}", b),
    }
}

impl fmt::Display for ByteSet {
    fn fmt(&self, f: &mut fmt::Formatter<'_>) -> fmt::Result {
        write!(f, "[")?;
        for (lo, hi) in self.ranges() {
            if lo == hi {
                write!(f, "{}", show_byte(lo))?;
            } else {
                write!(f, "{}-{}", show_byte(lo), show_byte(hi))?;
            }
        }
        write!(f, "]")
    }
}

// ---------------------------------------------------------------------------------------
// canonical regular expressions + derivatives
// ---------------------------------------------------------------------------------------

#[derive(Clone, PartialEq, Eq, PartialOrd, Ord, Hash, Debug)]
pub enum Re {
    /// the empty language
    Null,
    /// the language {""}
    Eps,
    /// one byte out of a non-empty set
    Set(ByteSet),
    /// concatenation, right-nested, no Null/Eps operand, left operand is not a Cat
    Cat(Box<Re>, Box<Re>),
    /// union of >= 2 operands: sorted, duplicate free, flattened, no Null
    Alt(Vec<Re>),
    /// Kleene star; operand is neither Null, Eps nor a Star
    Star(Box<Re>),
}

impl Re {
    pub fn set(s: ByteSet) -> Re {
        if s.is_empty() {
            Re::Null
        } else {
            Re::Set(s)
        }
    }

    pub fn cat(a: Re, b: Re) -> Re {
        match (a, b) {
            (Re::Null, _) | (_, Re::Null) => Re::Null,
            (Re::Eps, b) => b,
            (a, Re::Eps) => a,
            (Re::Cat(x, y), b) => Re::cat(*x, Re::cat(*y, b)),
            (a, b) => Re::Cat(Box::new(a), Box::new(b)),
        }
    }

    pub fn alt(items: impl IntoIterator<Item = Re>) -> Re {
        let mut flat: Vec<Re> = Vec::new();
        for it in items {
            match it {
                Re::Null => {}
                Re::Alt(v) => flat.extend(v),
                other => flat.push(other),
            }
        }
        flat.sort();
        flat.dedup();
        match flat.len() {
            0 => Re::Null,
            1 => flat.pop().unwrap(),
            _ => Re::Alt(flat),
        }
    }

    pub fn star(a: Re) -> Re {
        match a {
            Re::Null | Re::Eps => Re::Eps,
            Re::Star(x) => Re::Star(x),
            a => Re::Star(Box::new(a)),
        }
    }

    /// a+ = a a*
    pub fn plus(a: Re) -> Re {
        Re::cat(a.clone(), Re::star(a))
    }

    /// a? = a | eps
    pub fn opt(a: Re) -> Re {
        Re::alt([a, Re::Eps])
    }

    pub fn literal(bytes: &[u8]) -> Re {
        let mut r = Re::Eps;
        for b in bytes.iter().rev() {
            r = Re::cat(Re::Set(ByteSet::single(*b)), r);
        }
        r
    }

    /// does the language contain the empty string
    pub fn nullable(&self) -> bool {
        match self {
            Re::Null | Re::Set(_) => false,
            Re::Eps | Re::Star(_) => true,
            Re::Cat(a, b) => a.nullable() && b.nullable(),
            Re::Alt(v) => v.iter().any(|r| r.nullable()),
        }
    }

    /// canonical form of an empty language (see module doc)
    pub fn is_null(&self) -> bool {
        matches!(self, Re::Null)
    }

    /// Brzozowski derivative: { w | byte.w in L(self) }
    pub fn deriv(&self, byte: u8) -> Re {
        match self {
            Re::Null | Re::Eps => Re::Null,
            Re::Set(s) => {
                if s.contains(byte) {
                    Re::Eps
                } else {
                    Re::Null
                }
            }
            Re::Cat(a, b) => {
                let left = Re::cat(a.deriv(byte), (**b).clone());
                if a.nullable() {
                    Re::alt([left, b.deriv(byte)])
                } else {
                    left
                }
            }
            Re::Alt(v) => Re::alt(v.iter().map(|r| r.deriv(byte))),
            Re::Star(a) => Re::cat(a.deriv(byte), self.clone()),
        }
    }

    pub fn matches(&self, input: &[u8]) -> bool {
        let mut r = self.clone();
        for b in input {
            r = r.deriv(*b);
            if r.is_null() {
                return false;
            }
        }
        r.nullable()
    }

    /// Byte sets mentioned anywhere in the expression (the derivative only ever inspects a
    /// byte through `contains` on one of these).
    pub fn collect_sets(&self, out: &mut Vec<ByteSet>) {
        match self {
            Re::Null | Re::Eps => {}
            Re::Set(s) => out.push(*s),
            Re::Cat(a, b) => {
                a.collect_sets(out);
                b.collect_sets(out);
            }
            Re::Alt(v) => v.iter().for_each(|r| r.collect_sets(out)),
            Re::Star(a) => a.collect_sets(out),
        }
    }
}

impl fmt::Display for Re {
    fn fmt(&self, f: &mut fmt::Formatter<'_>) -> fmt::Result {
        match self {
            Re::Null => write!(f, "∅"),
            Re::Eps => write!(f, "ε"),
            Re::Set(s) if s.len() == 1 => write!(f, "{}", show_byte(s.first().unwrap())),
            Re::Set(s) => write!(f, "{}", s),
            Re::Cat(a, b) => write!(f, "{}{}", a, b),
            Re::Alt(v) => {
                write!(f, "(")?;
                for (i, r) in v.iter().enumerate() {
                    if i > 0 {
                        write!(f, "|")?;
                    }
                    write!(f, "{}", r)?;
                }
                write!(f, ")")
            }
            Re::Star(a) => write!(f, "({})*", a),
        }
    }
}

/// Partition of the byte alphabet into classes that no set in `sets` distinguishes.
/// Returns `(class_of[256], representatives)`. Two bytes of one class have the same
/// membership in every set, hence identical derivatives of every expression over `sets`.
pub fn byte_classes(sets: &[ByteSet]) -> ([u16; 256], Vec<u8>) {
    let mut sigs: Vec<(Vec<bool>, u16)> = Vec::new();
    let mut class_of = [0u16; 256];
    let mut reps = Vec::new();
    for b in 0..=255u8 {
        let sig: Vec<bool> = sets.iter().map(|s| s.contains(b)).collect();
        let id = match sigs.iter().find(|(s, _)| *s == sig) {
            Some((_, id)) => *id,
            None => {
                let id = sigs.len() as u16;
                sigs.push((sig, id));
                reps.push(b);
                id
            }
        };
        class_of[b as usize] = id;
    }
    (class_of, reps)
}

// ---------------------------------------------------------------------------------------
// combinator programs
// ---------------------------------------------------------------------------------------

/// A program over the public `NFA` combinators.
#[derive(Clone, PartialEq, Eq, PartialOrd, Ord, Hash, Debug)]
pub enum Ast {
    /// `NFA::from(&str)` (bytes are always ASCII here so that the str is the byte string)
    Lit(Vec<u8>),
    /// `NFA::predicate(|b| set.contains(b))`
    Pred(ByteSet),
    /// `NFA::empty()`
    Empty,
    /// `NFA::nothing()`
    Nothing,
    /// `NFA::sequence([...])` with any number of operands (0 => empty string)
    Seq(Vec<Ast>),
    /// `NFA::choice([...])` with any number of operands (0 => nothing)
    Choice(Vec<Ast>),
    /// `.optional()`
    Opt(Box<Ast>),
    /// `.some()` (one or more)
    Some(Box<Ast>),
    /// `.many()` (zero or more)
    Many(Box<Ast>),
}

impl Ast {
    pub fn lit(s: &str) -> Ast {
        Ast::Lit(s.as_bytes().to_vec())
    }
    pub fn pred(f: impl Fn(u8) -> bool) -> Ast {
        Ast::Pred(ByteSet::from_fn(f))
    }
    pub fn seq(v: impl IntoIterator<Item = Ast>) -> Ast {
        Ast::Seq(v.into_iter().collect())
    }
    pub fn choice(v: impl IntoIterator<Item = Ast>) -> Ast {
        Ast::Choice(v.into_iter().collect())
    }
    pub fn opt(self) -> Ast {
        Ast::Opt(Box::new(self))
    }
    pub fn some(self) -> Ast {
        Ast::Some(Box::new(self))
    }
    pub fn many(self) -> Ast {
        Ast::Many(Box::new(self))
    }

    pub fn nodes(&self) -> usize {
        match self {
            Ast::Lit(_) | Ast::Pred(_) | Ast::Empty | Ast::Nothing => 1,
            Ast::Seq(v) | Ast::Choice(v) => 1 + v.iter().map(|a| a.nodes()).sum::<usize>(),
            Ast::Opt(a) | Ast::Some(a) | Ast::Many(a) => 1 + a.nodes(),
        }
    }

    /// The regular expression the program denotes (the meaning the NFA documentation gives
    /// to each combinator).
    pub fn to_re(&self) -> Re {
        match self {
            Ast::Lit(b) => Re::literal(b),
            Ast::Pred(s) => Re::set(*s),
            Ast::Empty => Re::Eps,
            Ast::Nothing => Re::Null,
            Ast::Seq(v) => v.iter().rev().fold(Re::Eps, |acc, a| Re::cat(a.to_re(), acc)),
            Ast::Choice(v) => Re::alt(v.iter().map(|a| a.to_re())),
            Ast::Opt(a) => Re::opt(a.to_re()),
            Ast::Some(a) => Re::plus(a.to_re()),
            Ast::Many(a) => Re::star(a.to_re()),
        }
    }

    /// which of the unary loop/option operators occur (for finding keys)
    pub fn op_profile(&self) -> String {
        fn walk(a: &Ast, f: &mut [bool; 3]) {
            match a {
                Ast::Opt(x) => {
                    f[0] = true;
                    walk(x, f)
                }
                Ast::Some(x) => {
                    f[1] = true;
                    walk(x, f)
                }
                Ast::Many(x) => {
                    f[2] = true;
                    walk(x, f)
                }
                Ast::Seq(v) | Ast::Choice(v) => v.iter().for_each(|x| walk(x, f)),
                _ => {}
            }
        }
        let mut f = [false; 3];
        walk(self, &mut f);
        let names = ["opt", "some", "many"];
        let v: Vec<&str> = (0..3).filter(|i| f[*i]).map(|i| names[i]).collect();
        if v.is_empty() {
            "plain".into()
        } else {
            v.join("+")
        }
    }

    /// Position-set semantics: all positions where a match of `self` that starts at a
    /// position in `starts` can end. `starts`/result are bit masks over 0..=input.len()
    /// (input.len() <= 127).
    pub fn ends(&self, input: &[u8], starts: u128) -> u128 {
        if starts == 0 {
            return 0;
        }
        let n = input.len();
        match self {
            Ast::Empty => starts,
            Ast::Nothing => 0,
            Ast::Lit(bytes) => {
                let mut out = 0u128;
                for p in 0..=n {
                    if starts >> p & 1 == 1 && p + bytes.len() <= n && &input[p..p + bytes.len()] == &bytes[..] {
                        out |= 1 << (p + bytes.len());
                    }
                }
                out
            }
            Ast::Pred(s) => {
                let mut out = 0u128;
                for p in 0..n {
                    if starts >> p & 1 == 1 && s.contains(input[p]) {
                        out |= 1 << (p + 1);
                    }
                }
                out
            }
            Ast::Seq(v) => v.iter().fold(starts, |acc, a| a.ends(input, acc)),
            Ast::Choice(v) => v.iter().fold(0, |acc, a| acc | a.ends(input, starts)),
            Ast::Opt(a) => starts | a.ends(input, starts),
            Ast::Some(a) => {
                // least fixpoint of X = a(starts) | a(X)
                let mut x = a.ends(input, starts);
                loop {
                    let nx = x | a.ends(input, x);
                    if nx == x {
                        return x;
                    }
                    x = nx;
                }
            }
            Ast::Many(a) => {
                let mut x = starts;
                loop {
                    let nx = x | a.ends(input, x);
                    if nx == x {
                        return x;
                    }
                    x = nx;
                }
            }
        }
    }

    /// whole-string match by position sets (independent of the derivative matcher)
    pub fn matches_naive(&self, input: &[u8]) -> bool {
        assert!(input.len() <= 127);
        self.ends(input, 1) >> input.len() & 1 == 1
    }

    pub fn collect_sets(&self, out: &mut Vec<ByteSet>) {
        match self {
            Ast::Lit(b) => out.extend(b.iter().map(|x| ByteSet::single(*x))),
            Ast::Pred(s) => out.push(*s),
            Ast::Empty | Ast::Nothing => {}
            Ast::Seq(v) | Ast::Choice(v) => v.iter().for_each(|a| a.collect_sets(out)),
            Ast::Opt(a) | Ast::Some(a) | Ast::Many(a) => a.collect_sets(out),
        }
    }

    pub fn to_json(&self) -> Value {
        match self {
            Ast::Lit(b) => json!({"lit": b.iter().map(|x| format!("{:02x}", x)).collect::<String>()}),
            Ast::Pred(s) => json!({"pred": s.ranges().iter().map(|(a, b)| json!([a, b])).collect::<Vec<_>>()}),
            Ast::Empty => json!("empty"),
            Ast::Nothing => json!("nothing"),
            Ast::Seq(v) => json!({"seq": v.iter().map(|a| a.to_json()).collect::<Vec<_>>()}),
            Ast::Choice(v) => json!({"choice": v.iter().map(|a| a.to_json()).collect::<Vec<_>>()}),
            Ast::Opt(a) => json!({"opt": a.to_json()}),
            Ast::Some(a) => json!({"some": a.to_json()}),
            Ast::Many(a) => json!({"many": a.to_json()}),
        }
    }

    pub fn from_json(v: &Value) -> Result<Ast, String> {
        if let Some(s) = v.as_str() {
            return match s {
                "empty" => Ok(Ast::Empty),
                "nothing" => Ok(Ast::Nothing),
                _ => Err(format!("bad ast atom {s}")),
            };
        }
        let o = v.as_object().ok_or("ast: expected object")?;
        let (k, x) = o.iter().next().ok_or("ast: empty object")?;
        let list = |x: &Value| -> Result<Vec<Ast>, String> {
            x.as_array().ok_or("ast: expected list")?.iter().map(Ast::from_json).collect()
        };
        match k.as_str() {
            "lit" => {
                let s = x.as_str().ok_or("lit")?;
                if s.len() % 2 != 0 {
                    return Err("lit: odd hex".into());
                }
                let bytes: Result<Vec<u8>, _> =
                    (0..s.len() / 2).map(|i| u8::from_str_radix(&s[2 * i..2 * i + 2], 16)).collect();
                let bytes = bytes.map_err(|e| e.to_string())?;
                if bytes.iter().any(|b| *b >= 0x80) {
                    return Err("lit: only ASCII literals can be passed as &str".into());
                }
                Ok(Ast::Lit(bytes))
            }
            "pred" => {
                let mut r = vec![];
                for p in x.as_array().ok_or("pred")? {
                    let lo = p[0].as_u64().ok_or("pred lo")? as u8;
                    let hi = p[1].as_u64().ok_or("pred hi")? as u8;
                    r.push((lo, hi));
                }
                Ok(Ast::Pred(ByteSet::from_ranges(&r)))
            }
            "seq" => Ok(Ast::Seq(list(x)?)),
            "choice" => Ok(Ast::Choice(list(x)?)),
            "opt" => Ok(Ast::Opt(Box::new(Ast::from_json(x)?))),
            "some" => Ok(Ast::Some(Box::new(Ast::from_json(x)?))),
            "many" => Ok(Ast::Many(Box::new(Ast::from_json(x)?))),
            other => Err(format!("bad ast key {other}")),
        }
    }

    /// Python `re` syntax (bytes pattern) for cross-validation of the reference.
    pub fn to_python(&self) -> String {
        fn esc(b: u8) -> String {
            format!("\\x{:02x}", b)
        }
        match self {
            Ast::Lit(b) => format!("(?:{})", b.iter().map(|x| esc(*x)).collect::<String>()),
            Ast::Pred(s) if s.is_empty() => "(?!)".into(),
            Ast::Pred(s) => format!(
                "[{}]",
                s.ranges()
                    .iter()
                    .map(|(a, b)| if a == b { esc(*a) } else { format!("{}-{}", esc(*a), esc(*b)) })
                    .collect::<String>()
            ),
            Ast::Empty => "(?:)".into(),
            Ast::Nothing => "(?!)".into(),
            Ast::Seq(v) => format!("(?:{})", v.iter().map(|a| a.to_python()).collect::<String>()),
            Ast::Choice(v) if v.is_empty() => "(?!)".into(),
            Ast::Choice(v) => format!("(?:{})", v.iter().map(|a| a.to_python()).collect::<Vec<_>>().join("|")),
            Ast::Opt(a) => format!("(?:{})?", a.to_python()),
            Ast::Some(a) => format!("(?:{})+", a.to_python()),
            Ast::Many(a) => format!("(?:{})*", a.to_python()),
        }
    }
}

impl fmt::Display for Ast {
    fn fmt(&self, f: &mut fmt::Formatter<'_>) -> fmt::Result {
        match self {
            Ast::Lit(b) => write!(f, "\"{}\"", b.iter().map(|x| show_byte(*x)).collect::<String>()),
            Ast::Pred(s) => write!(f, "{}", s),
            Ast::Empty => write!(f, "empty"),
            Ast::Nothing => write!(f, "nothing"),
            Ast::Seq(v) => {
                write!(f, "seq(")?;
                for (i, a) in v.iter().enumerate() {
                    if i > 0 {
                        write!(f, ", ")?;
                    }
                    write!(f, "{}", a)?;
                }
                write!(f, ")")
            }
            Ast::Choice(v) => {
                write!(f, "choice(")?;
                for (i, a) in v.iter().enumerate() {
                    if i > 0 {
                        write!(f, ", ")?;
                    }
                    write!(f, "{}", a)?;
                }
                write!(f, ")")
            }
            Ast::Opt(a) => write!(f, "{}.optional()", a),
            Ast::Some(a) => write!(f, "{}.some()", a),
            Ast::Many(a) => write!(f, "{}.many()", a),
        }
    }
}

// ---------------------------------------------------------------------------------------
// bounded enumeration of programs
// ---------------------------------------------------------------------------------------

/// Grammar of the enumerated programs.
#[derive(Clone)]
pub struct Grammar {
    pub atoms: Vec<Ast>,
    /// also enumerate `sequence([])`, `choice([])` (as one-node programs) and one-operand
    /// `sequence([x])`, `choice([x])`
    pub edge_arities: bool,
}

/// One top-level shape of size `n`: operator and operand sizes.
#[derive(Clone, Debug)]
pub struct Shape {
    pub op: u8, // 0 opt, 1 some, 2 many, 3 seq, 4 choice
    pub sizes: Vec<usize>,
}

pub struct Enumerator {
    pub grammar: Grammar,
    /// all programs with exactly n nodes, for n <= stored
    pub by_size: Vec<Vec<Ast>>,
    /// number of programs with exactly n nodes for n <= max
    pub counts: Vec<u64>,
}

fn compositions(total: usize, parts: usize) -> Vec<Vec<usize>> {
    if parts == 0 {
        return if total == 0 { vec![vec![]] } else { vec![] };
    }
    let mut out = vec![];
    for first in 1..=total.saturating_sub(parts - 1) {
        for mut rest in compositions(total - first, parts - 1) {
            let mut v = vec![first];
            v.append(&mut rest);
            out.push(v);
        }
    }
    out
}

impl Enumerator {
    /// Materialise every program with up to `stored` nodes.
    pub fn new(grammar: Grammar, stored: usize) -> Self {
        let mut e = Enumerator { grammar, by_size: vec![vec![]], counts: vec![0] };
        for n in 1..=stored {
            let mut v = Vec::new();
            if n == 1 {
                v.extend(e.grammar.atoms.iter().cloned());
                if e.grammar.edge_arities {
                    v.push(Ast::Seq(vec![]));
                    v.push(Ast::Choice(vec![]));
                }
            } else {
                for shape in e.shapes(n) {
                    let total = e.shape_count(&shape);
                    for i in 0..total {
                        v.push(e.build(&shape, i));
                    }
                }
            }
            e.counts.push(v.len() as u64);
            e.by_size.push(v);
        }
        e
    }

    /// Top-level shapes of programs with exactly `n >= 2` nodes, in a fixed order.
    pub fn shapes(&self, n: usize) -> Vec<Shape> {
        let mut out = vec![];
        for op in 0..3u8 {
            out.push(Shape { op, sizes: vec![n - 1] });
        }
        let arities: &[usize] = if self.grammar.edge_arities { &[1, 2, 3] } else { &[2, 3] };
        for op in 3..5u8 {
            for k in arities {
                for sizes in compositions(n - 1, *k) {
                    out.push(Shape { op, sizes });
                }
            }
        }
        out
    }

    /// number of programs of this shape (operands must be materialised)
    pub fn shape_count(&self, s: &Shape) -> u64 {
        s.sizes.iter().map(|z| self.by_size[*z].len() as u64).product()
    }

    /// the `index`-th program of a shape (mixed radix over the operand lists, first operand
    /// least significant)
    pub fn build(&self, s: &Shape, mut index: u64) -> Ast {
        let mut ops = Vec::with_capacity(s.sizes.len());
        for z in &s.sizes {
            let list = &self.by_size[*z];
            ops.push(list[(index % list.len() as u64) as usize].clone());
            index /= list.len() as u64;
        }
        match s.op {
            0 => Ast::Opt(Box::new(ops.pop().unwrap())),
            1 => Ast::Some(Box::new(ops.pop().unwrap())),
            2 => Ast::Many(Box::new(ops.pop().unwrap())),
            3 => Ast::Seq(ops),
            _ => Ast::Choice(ops),
        }
    }
}

#[cfg(test)]
mod tests {
    use super::*;

    #[test]
    fn derivative_basics() {
        let r = Ast::seq([Ast::lit("a").some(), Ast::lit("b")]).opt().to_re();
        assert!(r.matches(b""));
        assert!(r.matches(b"aab"));
        assert!(!r.matches(b"a"));
        assert!(!r.matches(b"b"));
    }
}
