//! reference model `regex` (filled in by the property that needs it)
