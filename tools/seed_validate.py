#!/usr/bin/env python3
"""Validate one seeded change and, if it is confirmed, keep it under /verif/seeded/<name>/.

usage: seed_validate.py <src_dir with patch.diff, demo.rs, NOTES.md> <name> <property> <check id>...

Steps (all against /repo itself, undone afterwards):
  demo on the unchanged tree must pass; patch must apply; library tests must still pass (62);
  demo with the patch must fail; then every listed check's quick tier is run and its verdict recorded.
"""
import json, os, shutil, subprocess, sys, time
src, name, prop = sys.argv[1], sys.argv[2], sys.argv[3]
checks = sys.argv[4:] or [prop]
REPO = "/repo"
def sh(cmd, cwd=None, timeout=3600):
    p = subprocess.run(cmd, shell=True, cwd=cwd, capture_output=True, text=True, timeout=timeout)
    return p.returncode, p.stdout + p.stderr
def clean():
    sh("git checkout -- . && rm -f tests/seed_demo.rs && rmdir tests 2>/dev/null", REPO)
assert sh("git status --porcelain", REPO)[1].strip() == "", "repo working tree not clean"
meta = {"name": name, "property": prop, "source": src, "validated_at_repo_commit": sh("git log --format=%h -1", REPO)[1].strip()}
os.makedirs(f"{REPO}/tests", exist_ok=True)
shutil.copy(f"{src}/demo.rs", f"{REPO}/tests/seed_demo.rs")
try:
    rc, out = sh("cargo test --offline --test seed_demo 2>&1 | tail -15", REPO)
    meta["demo_without_change"] = "pass" if "test result: ok" in out else "FAIL"
    rc, out = sh(f"git apply --check {src}/patch.diff && git apply {src}/patch.diff", REPO)
    meta["patch_applies"] = rc == 0
    if rc != 0:
        meta["apply_error"] = out[-500:]
    else:
        rc, out = sh("cargo test --offline --lib 2>&1 | grep -E '^test result'", REPO)
        meta["library_tests_with_change"] = out.strip()
        rc, out = sh("cargo test --offline --test seed_demo 2>&1 | tail -25", REPO)
        meta["demo_with_change"] = "fail" if ("test result: FAILED" in out or "panicked" in out) else ("pass" if "test result: ok" in out else "error")
        meta["demo_with_change_tail"] = out[-600:]
        os.remove(f"{REPO}/tests/seed_demo.rs")
        meta["checks"] = {}
        for c in checks:
            t = time.time()
            rc, out = sh(f"./check {c} quick", "/verif")
            viol = [l for l in out.splitlines() if l.startswith("VIOLATION")]
            what = [l.strip() for l in out.splitlines() if l.strip().startswith("what:")]
            meta["checks"][c] = {"exit": rc, "violations": len(viol), "first_what": what[:2], "wall_s": round(time.time() - t, 1)}
finally:
    clean()
    sh("rm -f /verif/replays/*.json")
ok = meta.get("patch_applies") and meta.get("demo_without_change") == "pass" and meta.get("demo_with_change") == "fail" and "62 passed" in meta.get("library_tests_with_change", "")
meta["confirmed"] = bool(ok)
meta["detected_by"] = [c for c, r in meta.get("checks", {}).items() if r["exit"] == 1 and r["violations"] > 0]
print(json.dumps(meta, indent=1))
if ok:
    dst = f"/verif/seeded/{name}"
    os.makedirs(dst, exist_ok=True)
    if os.path.realpath(src) != os.path.realpath(dst):
        shutil.copy(f"{src}/patch.diff", dst)
        shutil.copy(f"{src}/demo.rs", dst)
        if os.path.exists(f"{src}/NOTES.md"):
            shutil.copy(f"{src}/NOTES.md", dst)
    json.dump(meta, open(f"{dst}/meta.json", "w"), indent=1)
