#!/usr/bin/env python3
"""Generate /verif/MANIFEST.json from the table below (single source of truth for the checks
that are actually built). Properties without an entry in CHECKS are listed under
not_applicable with the reason given in PENDING."""
import json, os, subprocess, sys
HERE = os.path.dirname(os.path.dirname(os.path.abspath(__file__)))

CHECKS = {
    # id: (engine, level, technique, text, note, design_ref)
    "C08": ("sweep", "exploration",
            "exhaustive enumeration of selector x axis-length lattice against a Python-slice reference",
            "Every selector form in all ten integer types is resolved against every listed axis length: "
            "all values and all pairs for the 8-bit types, all values of the 16-bit types for one-bound forms, "
            "a boundary lattice plus a dense band around zero for the wider types; each result is compared with "
            "Python's slice.indices re-implemented in i128 (itself compared with CPython at start-up). "
            "The space is finite and enumerated completely, so a wrong bound for any listed case is reported on every run. Every i32 selector with bounds in -9..=9 on axes of 0..=6 is also applied through the 17 public entry points that take a selector (Shape::view, Surface::view / view_mut / view_owned - also chained and on transposed surfaces -, Image::crop on row-major and column-major images) and what it selected is read off the cells.",
            "Trusts CPython's slice semantics and the statement's reading of an inclusive end; wide types are covered on a lattice, not every value.",
            "DESIGN.md §C08"),
}

CHECKS["C03"] = ("bfs+sweep (worker subprocesses)", "model_checking",
    "explicit-state exploration of decoder states + exhaustive string/partition enumeration against a DFA-acceptance reference tokeniser",
    "Every reachable state of the two production decoders with a buffer of at most B bytes over a representative alphabet "
    "(one byte per class of the production DFA that matters structurally) is visited and from each every continuation of length <= 2 (3) "
    "is fed whole, byte by byte and with empty reads; all strings up to length 4-5 over the alphabet (and all byte strings up to length 2-3) "
    "are decoded under ALL partitions into reads - each partition twice: as separate reads and as successive fill_buf slices of ONE reader, and (whole input; single cuts of short inputs) with one decode call followed by decode_into on every read; "
    "for every looping state of the automata a read of 32 / 65 filler bytes followed by every way of leaving the loop starts inside the loop (bulk handling of long reads), also with 70 000 and 1 100 000 filler bytes; the incremental tokeniser core is instantiated (hook H1) over every set of up to 2 (3) "
    "patterns from a pool of 14 and run on every input over {a,b,c} up to length 7 (8) under all partitions, and once more with a, b, c standing for the bytes 0xFF, 0x00, 0x80 (whole and byte by byte). Each execution is compared with "
    "the others (same events, same final state) and with a reference leftmost-longest tokenisation computed from per-prefix acceptance of "
    "the DFA (production) / from regular-expression derivatives (pattern sets). States/transitions are those of the real decoder.",
    "Reference garbage grouping follows the library (statement silent); what a recognised token decodes to is C04; buffers longer than the bound and alphabets beyond the representatives are not explored.",
    "DESIGN.md §C03")

CHECKS["C01"] = ("bfs", "model_checking",
    "explicit-state BFS over renderer histories of the real TerminalRenderer against a VT screen model, differential vs from-scratch repaint",
    "A state is the real renderer (back buffer, marks, glyph cache read through hook H3) together with a reference VT screen that executed every "
    "command the renderer issued. Transitions: draw any surface of the grid and call frame; draw-and-reset without a frame; clear(); clear()+new(clear=true); "
    "a frame whose commands are lost followed by clear(). For each of 13 (24) grids up to 2x3 / 1x7 / 4x2 (some taller than wide) the search runs over ALL surfaces built from up to 11 of 24 cell kinds "
    "(narrow, wide, coloured, underlined blanks, four images incl. equal content in a different allocation and a two-row one, two tiles of one sprite sheet, two glyphs, one of them under two faces and once inside a frame, non-ASCII white space, an image under two faces, reverse-video blanks of two colours, bold and italic-on-red blanks in rows of six (seven) cells, long enough for the run-length erase; "
    "a glyph must show as the image its own rasterisation gives for that face and cell size) and continues to a fixpoint of the state graph; "
    "after every frame the screen must equal what a fresh renderer paints on a blank screen, the from-scratch screen must equal the direct reading of the surface when nothing overlaps, "
    "and no command may address a cell outside the grid or print in the pending-wrap column. The library's own render loop is driven too: every program of up to 3 handler calls (surface x Wait / WaitNoFrame / Sleep(0) x next event timeout / wake / resize / more than 32 frames pending) through Terminal::run_render on a scripted terminal (0.6 M programs); after every rendered frame the screen must equal a from-scratch repaint; a slice of both spaces runs once more under a tracing subscriber that evaluates every log line; a third space adds resizes that keep the grid and double the pixel size; every surface of a 2x4 grid with a tall and a three-cell-wide image is painted from scratch and no two placements may share a cell.",
    "Trusts the VT semantics of model/screen.rs (ECH = background only, wide-character halves) and unicode-width; image z-order is not modelled; grids beyond the listed sizes are not explored.",
    "DESIGN.md §C01")

CHECKS["C16"] = ("bfs + devdfs (worker subprocesses)", "model_checking",
    "explicit-state BFS of the real IOQueue against a byte model + deviation-bounded enumeration of kernel answers for the real UnixTerminal on a pty",
    "(a) BFS over all histories of write/write_vectored/flush/read/consume/consume_with/fill_buf/clear_but_last on the real IOQueue (payload capped) to the depth bound: in every state "
    "len() must equal the readable bytes, bytes come out in order exactly once, and a drop may remove only whole flush-delimited chunks that have not started; a second pass over one-byte and 64 KiB / 70 001-byte writes and consumes to depth 7 (9) and (read_to_end in the alphabet; after every history a probe continuation - 3 bytes, flush, 2 bytes, drain - must deliver everything pending plus the five bytes, and its chunk lengths are part of the state key) and a third over a 3.3 MB chunk with consumes of 1 MiB + 1 and 2.2 MB to depth 4 (5) cover buffer re-allocation and block-release thresholds. "
    "(b) The real UnixTerminal runs scripted write/execute/flush/poll/frames_drop sessions on a real pseudo-terminal while hook H2 lets the harness answer every "
    "select/write/read and own the clock; ALL schedules with at most 2 (3; short sessions 3 (4), in the quick tier not those pushing more than 64 KiB) departures from the cooperative answer (short write of 1 / half / len-1 bytes, EAGAIN, EINTR, "
    "withheld or delayed writability) are executed to completion, for every crash point of every session (sessions with the kitty and with the sixel image handler active put an image command - a cached one for sixel - inside a frame that is dropped and inside an execute_many batch; with the size tracked by escape sequences a window-size signal may arrive at any point - the terminal's own size request may stand between chunks only; every complete session once more with at most one deviation under a tracing subscriber that evaluates every log line); the bytes accepted by the tty must be the written chunks in order, whole, "
    "with only not-yet-started chunks missing after frames_drop.",
    "Kernel model (write accepts a prefix, select never invents readiness); encoder output taken as given (C05); sessions and payload sizes are the listed ones; more deviations than the bound are not explored.",
    "DESIGN.md §C16")
CHECKS["C17"] = ("devdfs (worker subprocesses)", "fault_enumeration",
    "deviation-bounded enumeration of environment events (wake, SIGWINCH, SIGTERM, input, hang-up) at every system-call boundary and of every crash point, real UnixTerminal on a pty",
    "Same explorer as C16(b). In addition a waker call, SIGWINCH, SIGTERM, the next input bytes or a hang-up may land before ANY select/write/read or between the signal, waker and input "
    "phases of the poll loop (hook points), each costing one deviation; polls use timeouts 0, 5 ms (virtual clock) and infinite; bursts of 127 / 128 / 256 / 1024 wake requests before one poll; a termination and a window-size signal pending together in both orders; three wake requests at every triple of points; three keys typed before position() with another one arriving inside it; two terminal objects one after the other on one pty device number (the first hung up before its release, the second with other initial line settings; real system calls, in a child process); arrival order under the real kernel (256 / 40 one-byte frames pending, a key typed, one poll, SIGWINCH: key before resize); a terminal that answers position() late while a wake is pending; release with an output copy (duplicate_output) that cannot be written; a window that grows with every window-size signal (the last Resize must carry its size); eleven placements of the tty descriptor relative to the descriptors the terminal allocates itself (as given, moved to 40 with 0..6 or all lower numbers free, moved to 200 and 700; real system calls: typed keys must arrive, output and the closing sequence must reach the peer); the terminal is released after every prefix of every session. "
    "Oracle: a wake is followed by a Wake event from the current or a later poll and never blocks a poll for ever; SIGWINCH yields a Resize; SIGTERM yields the quit error; input bytes come out "
    "as the events a reference decoder gives, in order; no quit without cause; after release tcgetattr equals the saved settings and, if the tty kept accepting writes, the closing sequence "
    "(cursor visible, mouse modes off) was delivered. Every failing schedule is replayed twice and must fail identically.",
    "Kernel model; signals raised synchronously on the polling thread; peer answers DA1 and keeps draining (fairness); cross-source event order within one select round is not judged.",
    "DESIGN.md §C17")

CHECKS["C02"] = ("sweep (worker subprocesses)", "exploration",
    "exhaustive enumeration of byte strings, UTF-8 lattice, hostile-token lattice and edit neighbourhoods in worker subprocesses",
    "Every byte string up to length 2 (3) over all 256 bytes for the three decoders, the UTF-8 boundary lattice (every lead byte x boundary continuation bytes) and every Unicode scalar value, "
    "36 sequence templates x a 16-value hostile number lattice for every numeric field plus ~120 fixed malformed tokens and 384 OSC colour replies whose value is a short lead followed by a multi-byte character or a stray continuation byte, 16 sequence shapes with one numeric field taking EVERY value 0..=70 000 (every value up to 0x110010; the swept number is judged as a decoded field where the event carries it), 600 giant sequences (string introducers followed by 64 KiB .. 1.1 MB of one byte and five tails), and all single (double) byte edits of 130 base tokens are fed whole, (the fixed and base tokens once more under a tracing subscriber that evaluates every log line; every partition of up to three parts also as one reader handing out pieces to decode_into) "
    "at every cut, byte by byte and with empty reads (all partitions up to length 5). Oracle: no panic, no abort or stall of the worker process (attributed to the exact input through a memory-mapped progress record "
    "and confirmed in a fresh process), decode returns None once input is exhausted and keeps doing so, every char is a scalar value, raw events are non-empty, and every numeric field of a recognised event is the exact "
    "transmitted value, the type's maximum, or the sequence is unrecognised. Strings over the representative alphabet up to length 4-5 under all partitions run through the same driver in C03.",
    "The lattices are chosen from the branch structure of the decoders; values between lattice points and longer random garbage are not enumerated.",
    "DESIGN.md §C02")

CHECKS["C11"] = ("bfs / history enumeration", "model_checking",
    "exhaustive enumeration of draw/erase/response histories on the real KittyImageHandler against an independent kitty-graphics parser and reference terminal image store",
    "All histories of depth 3 (no de-duplication; 1.19 M) and, de-duplicated by (transmitted ids, reference terminal state), depth 4 (6) over a 120-operation alphabet (8 images incl. 1x1, cropped/strided view, a crop taken after its parent was hashed and drawn, equal pixels in another allocation, "
    "empty, exactly-4096-byte payload, three-chunk payload; 4 positions incl. the origin and (65535,65535); draw, erase(Some), erase(None), OK and error responses for known and unknown ids, unrelated events) are executed on the real handler, "
    "plus every history of 2 (3) operations over a second set of 11 images that differ in memory layout (row-major, transposed, windows with gaps, re-allocated copies; ids must be injective on content), volume histories (a 134 MB image drawn twice; thorough: 12 x 16 MiB and 40 x 4 MiB images twice), sinks that take 1 / 7 bytes per call, a first draw whose sink fails after 0 / 1 / 20 / 60 / 4300 bytes or at any of the last 70 bytes of the draw followed by a draw into a working sink, a pixel buffer recycled for another image after its first image was dropped, the .quiet() handler, two-operation histories under a tracing subscriber that evaluates every log line, histories through the library's `impl ImageHandler for Box<T>` (the way a terminal holds its handler; de-duplicated runs carry a probe continuation - every image drawn once more - in the state key), 1 024 single-pixel images over every channel value and thousands of sizes across the chunk boundaries. The emitted bytes are parsed by an independent APC/kitty parser and fed to a reference terminal store; "
    "oracle: valid commands, s/v = image size, f=32, chunks <= 4096 and multiples of 4 with correct m flags, payload base64-decodes to the exact RGBA pixels row-major, at most one transmission per content (plus one per evicting error), "
    "every put names a transmitted image, erase(img, Some(pos)) removes exactly the placement draw(img,pos) created.",
    "Trusts the reading of the kitty graphics protocol in model/kitty.rs (p=0 = unspecified); id hash collisions are out of reach of enumeration.",
    "DESIGN.md §C11")
CHECKS["C12"] = ("sweep", "exploration",
    "exhaustive small-image sweep decoded by an independent sixel interpreter",
    "All colourings of 6x1 and 6x2 images over 3 colours and 6x3 over 2 (thorough: 6x2 over 4, 6x4, 12x1, 12x2), all constant-column single-band images up to width 12 (16), heights {6,7,11,12,13} x widths 1..5, >256 colour gradients, "
    "alpha {0,128,255} over three backgrounds, 1 260 crops, every channel value, runs of fully transparent black pixels, images stored column-major (transposed views, plain and cropped), erase(Some) / erase(None) and four events passed to handle() between draws, a buffer repainted in place between two draws, the shared-handler families once more with logging switched on, repeated draws on shared handlers (incl. row-major / column-major twins over one pixel sequence and crops taken after the parent was drawn) and into sinks that take 1 / 7 bytes per call: 0.82 M (51.8 M) images. The emitted bytes are decoded by an independent sixel interpreter (raster attributes, colour registers, "
    "repeat, $, -) into an unpainted-initialised raster; oracle: one well-formed sequence, declared size = width x 6*floor(h/6), every pixel painted exactly inside the raster, only defined registers (<= 256), pixel-exact equality at 0-100 "
    "resolution when the colours fit and the image is not subsampled, second draw byte-identical.",
    "Trusts the sixel reading of model/sixel.rs; partial alpha is only checked to lie between pixel and background; images above the subsampling threshold are checked for structure only.",
    "DESIGN.md §C12")
CHECKS["C14"] = ("bfs + sweep", "model_checking",
    "closed BFS over the encoder's carry state + exhaustive partition / reader-schedule enumeration against an RFC 4648 reference codec",
    "Encoder: the carry-state graph (65 793 states x 256 bytes) is closed on the real encoder; all 2^24 three-byte groups and all tails; every partition into writes for n <= 12 (18), with flushes, one-byte sinks and empty writes, "
    "lengths 0..=200 under all <= 2-cut partitions; every partition also as ONE write_vectored call. Decoder: lengths 0..=200 x 18 cyclic reader schedules (six of them with interrupted reads) x 21 destination patterns (buffer sizes, and read_to_end / read_vectored from the start and after partial reads), lengths up to 65 537 through reads and destinations up to 100 000, UTF-8 payloads of 0..=260 bytes in four phases read with read_to_string, EVERY composition of the text into reads for <= 16 (24) characters, all 2^24 groups; "
    "every length not divisible by four must error; ~1.2 M garbage inputs (all two-byte, 20^4 four-character, 64-byte buffer boundary sweeps) must not panic. Reference: RFC 4648 codec checked against the RFC vectors and CPython.",
    "Readers/writers that fail are out of scope; invalid characters only need to avoid a panic (statement silent on their decoding).",
    "DESIGN.md §C14")
CHECKS["C15"] = ("product-automaton bfs", "model_checking",
    "product BFS (real DFA state x Brzozowski derivative vector) to a fixpoint for every combinator expression up to the node bound",
    "Every expression with <= 6 (7) nodes over atoms {a, b, [ab], \"ab\", empty, nothing} and operators sequence/choice (2-3 operands)/optional/some/many (124 k; thorough 1.29 M), an edge-arity space (empty and one-element lists, a non-ASCII literal) and a deep {a,b} space are built - each with the constructor functions and, where it has one, in the operator form `a + b`, `a | b` - "
    "through the public NFA API and compiled; the real DFA is stepped on all 256 bytes in every reachable product pair with the derivative of the expression; reaching the fixpoint decides language equality for ALL strings. "
    "Checked in every pair: accepting <=> nullable, dead transition <=> empty derivative, terminal => no byte extends, and for tagged choices tags == alternatives whose derivative is nullable. The production decoder automata (hook H1) are "
    "checked the same way against a byte-level transcription of their grammars. Both reference matchers are cross-checked against CPython re.fullmatch.",
    "Expressions beyond the node bounds and other atoms are not covered; production grammars are compared with a transcription of decoder.rs.",
    "DESIGN.md §C15")
CHECKS["C18"] = ("bfs + sweep", "model_checking",
    "explicit-state BFS over registration histories of the real KeyMap against a dictionary model; exhaustive matcher and parser sweeps",
    "BFS over histories of register(chord of length 1-3 over {a,b,ctrl+c}) to depth 3 (4) and over {a,b} to depth 4 (6) with an observational key (for_each listing + lookup of every chord up to length 4): in every state all lookups, "
    "the enumeration and register's return value are compared with a last-writer-wins prefix-free dictionary. register_override over all ordered pairs of 1 435 (2 729) small maps. Every ordered pair of keys over 5 names x 512 modifier sets bound in one map (quick: all pairs of one name, other names at modifier distance <= 1): different keys keep their own values. KeyMapHandler/lookup_state on every prefix-free set of up to 3 (4) chords x "
    "every key string up to length 5 (6) over {a,b,c,x}: fires exactly at the last key from idle, an unbound key never blocks the next chord, every firing is sound. Parsers: all strings of <= 3 (5) tokens over a 24-token alphabet, f+1..30 digits, "
    "every KeyName x 2^9 modifier sets printed and re-parsed, every code point below U+3000 (every scalar value) in ten raw spellings (bare, quoted, with modifiers, inside chords), all ordered pairs of 22 modifier-like words around four keys in five arrangements; registration BFS over keys that are easy to confuse (F1, F(1+2^32), Tab, the tab character; a, numlock+a, b); the matcher sweep repeated with pointer motion, Tab and a mouse button behind the key indices; "
    "registrations between two chords: for all ordered pairs of 195 small binding sets, a matcher that the statement calls idle must answer like a fresh one after the second set is registered (lookup_state with the caller's buffer and KeyMapHandler).",
    "What happens after a partially typed chord is abandoned by a key that itself begins a chord is not demanded (statement silent); chords longer than 3 as registrations are not explored.",
    "DESIGN.md §C18")
CHECKS["C20"] = ("sweep", "exploration",
    "complete sweep of all 2^24 colours through the real encoder against brute force over the xterm palette",
    "All 2^24 opaque colours are encoded with the real TTYEncoder as Face.fg under EightBit, Gray and TrueColor (quick; bg and underline colour on the complete 65^3 lattice), and at all five call sites (Face.fg/bg, FaceModify.fg/bg/underline_color) in thorough; "
    "the emitted SGR is parsed independently. EightBit: index in 16..=255 whose distance (library's LinColor metric, palette from its sRGB xterm definition) is within 1e-5 of the brute-force minimum over all 240 entries; Gray: nearest of the four levels by luma and monotone over the sorted sweep; "
    "TrueColor: exact r;g;b. Two-emission histories on one encoder (16^3 colour lattice x {same colour, neighbour, half-transparent twin} x 25 role pairs x 3 depths) and both colours in one Face / FaceModify command: each emission is judged like a fresh encoder's; so is the first command sent once more as a third emission, and an emission that follows one whose sink failed after two bytes. Terminal objects opened on ptys under seven environments (TERM dumb / linux / xterm, COLORTERM unset / truecolor / 24bit, emulator answering the face query) execute 125 colours x 5 roles; every sequence is judged by the oracle of the depth the object reports.",
    "Trusts LinColor::distance / From<RGBA> as the metric the statement refers to; ties within 1e-5 (table rounding) are not judged.",
    "DESIGN.md §C20")

CHECKS["C04"] = ("sweep", "exploration",
    "exhaustive enumeration of every sequence family x parameter lattice from an independent protocol printer, plus all pairs/triples of tokens under all <= 2-cut partitions",
    "An independent printer (model/keytable.rs: golden key table + per-family encoders written from xterm ctlseqs / kitty / fixterms) emits every legacy key, pastes and kitty messages of 255 B .. 1.1 MB read whole and in reads of 4 KiB / 64 KiB / 1 MB, parameters padded with zeros to 2..40 digits, SGR mouse report (all 256 button codes x m/M x coordinate lattice incl. 1 and 65535), "
    "cursor / size / DECRPM / DA1 / OSC 4,10,11 (every 1-4 digit rgb component) / XTGETTCAP / kitty keyboard (EVERY Unicode scalar value x modifier values, every modifier mask) / kitty image / paste / DECRPSS / SGR (both colour forms, multi-colour) report "
    "and every printable scalar as text: 8.3 M distinct inputs, 26 M (318 M) decodes. 69 representative tokens are concatenated in all ordered pairs (and triples) and fed under every partition with at most two cuts; for every cut list one read per piece is compared with one reader that hands out the pieces. "
    "The decoded event list must equal the printer's intention exactly, arrive with the last byte, and leave nothing buffered.",
    "The key naming table is taken as specification; ambiguous legacy prefixes are placed only where the statement allows either reading; values between lattice points are not enumerated.",
    "DESIGN.md §C04")
CHECKS["C05"] = ("sweep", "exploration",
    "exhaustive enumeration of commands x parameter lattices x capability configurations, interpreted by an independent ECMA-48/xterm parser",
    "All 28 TerminalCommand variants x boundary lattices (positions/counts {0,1,2,9,10,99,65535}, signed moves and scrolls over {MIN,MIN+1,-10,-1,0,1,10,MAX}^2, all DEC modes, palette names and colours, every printable title / capability name up to length 2 (3), "
    "every value 0..=70 000 of each numeric parameter of CursorTo / CursorMove / Scroll / ScrollRegion / EraseChars / KeyboardLevel / Color and every scalar value as Char, titles / names / raw payloads of 31..70 000 bytes, every command after an encode that failed in the writer at every offset, a sink that takes one byte per call, 200 704 (4.07 M) faces = colours x all attribute sets x underline styles (incl. the two raw field values that are no style), 72 576 face modifications) x 12 configurations (3 colour depths x kitty keyboard x glyphs) are encoded by the real TTYEncoder and parsed by model/ecma48.rs "
    "(byte-level C0/ESC/CSI/OSC/DCS/APC parser + operation decoder written from ECMA-48 / xterm ctlseqs); the operation list must equal the command's denotation with exact parameters, SGR must select exactly the requested rendition from three different "
    "start renditions, encode never panics; all 2 209 ordered pairs of 47 representative commands (incl. three keyboard levels) in one stream must parse back to the concatenation (self-containedness); colour history: every ordered pair of 24 colours (6 RGB x 4 alpha values) "
    "in every ordered pair of colour slots under the three depths, as two commands on one encoder and as one command, must convert each colour as a fresh encoder does.",
    "Trusts the interpreter's reading of the standards; which palette entry is chosen at reduced depth is C20; Gray-depth underline colour may be dropped (no SGR form exists).",
    "DESIGN.md §C05")
CHECKS["C06"] = ("sweep + bfs", "model_checking",
    "complete round-trip sweep encoder->decoder under partitions + explicit-state BFS over SGR histories through the escape-sequence cell writer against a reference SGR state machine",
    "(a) Every FaceModify and Face of the lattice is encoded in true-colour mode and decoded by TTYCommandDecoder under every partition with at most 2 (1 for the large lattices) cuts; every value of each colour channel in each colour slot; all 1.1 M characters except ESC round-trip as Char. "
    "(b) BFS with state = current face of a CellWrite sink behind tty_writer(): 600 operations (sequences of 1-2 tokens from a 24-token SGR alphabet the library claims, each followed by a character whose cell face is observed), "
    "depth 2 (thorough: to the fixpoint, 1 600 states, 960 k transitions), the last sequence written under every <= 2-cut partition and byte by byte, and with a write boundary inside the text that precedes it; reference: model/sgr.rs (each attribute and colour set/cleared independently, later parameters win, 0 resets). Every history also into a target that holds 0 / 1 cells and is rewound before one more character is written (the writer has seen every sequence). (c) Encoder histories: 7 x 7 face changes on one encoder, the first into a sink failing after every number of bytes, the second read back.",
    "SGR 21 and codes the library does not claim are outside the alphabet; underline colour has no slot in Face.",
    "DESIGN.md §C06")

CHECKS["C07"] = ("bfs", "model_checking",
    "explicit-state BFS over chains of view/transpose to the fixpoint of the shape graph on the real surface types against a list-of-lists window model",
    "Bases with sides 0..=5 (0..=8) in a dense and a strided/padded layout, 145 operations (transpose and view(rows, cols) over a 12-symbol selector alphabet incl. negative, inclusive, open, empty and out-of-range bounds); key = base + Shape; the BFS runs to the "
    "fixpoint (5 001 / 57 794 states, so chain length is unbounded). Every transition re-executes the program through six ownership paths (view on &S, view_mut, view_owned on &mut S, nested owned view over Box<dyn SurfaceMut>, and - for chains of up to 4 steps - method calls on values of the concrete view types and the finished view held behind &S, &mut S, Box<S>, Arc<S> (the forwarding implementations), "
    "so the caller's method resolution is exercised) which must agree, and runs the full access battery: "
    "get/get_mut inside and in a ring outside (incl. usize::MAX probes), iter (count, order, position, index), every iterator adaptor a type may override (fold, for_each, collect, count, last, size_hint, find, position, all) after k items taken with next, iter_mut with the raw addresses of all yielded references required pairwise distinct and inside the window, nth, fill, fill_with, clear, insert at every offset, map, "
    "to_owned_surf, each against the window model, with a sentinel copy of the base compared after every mutation. Thorough adds a Miri replay of a reduced program set (supplementary UB detector, never the decider).",
    "Range resolution itself is C08; the `end` field is judged by its documentation ('offset of the last + 1 element'); sides above 8 and selectors outside the alphabet are not explored.",
    "DESIGN.md §C07")
CHECKS["C09"] = ("sweep", "exploration",
    "exhaustive enumeration of cell sequences x view placements x all write partitions against a sentinel canvas",
    "All sequences of up to 4 (6) cells over 12 kinds (byte level: 8 character kinds and a four-byte character; plus runs of 33 / 70 characters followed by each kind, cut at every position) (narrow, 2-byte, wide, two zero-width, newline, tab, CR, glyph with narrow / wide fallback, images of 1 and 2x2 cells) are written into views of 1..3 x 1..5 cells placed plainly, offset, strided (stride 2) and transposed "
    "inside a 7x10 sentinel canvas, wraps on/off, glyph support on/off, cursor at the origin or in the last column, through put_cell, io::Write on TerminalWriter, utf8_writer(), tty_writer() (SGR between characters) and the Text view (layout + render). "
    "The Text view is also rendered into a window of a canvas with its layout rectangle moved to five offsets (nothing outside the window, nothing left of or above the rectangle may change). Oracle: no canvas cell outside the view changes; ALL 2^(n-1) partitions of the bytes into write calls (byte strings up to 12 bytes; <= 2 cuts and byte-by-byte beyond) give the same canvas and no partition-dependent error; the write paths agree with each other; "
    "for Text rendered into the size its own layout reported for max widths 1..6 (and 9, 10, 30 for glyphs whose fallback text holds a tab or a newline) every printable cell (glyph fallback characters without glyph support) appears exactly once in reading order, with wrapping off only cells beyond the right edge are missing; for texts with a glyph or image the same holds for a value that was laid out before under the other glyph capability, another cell size and another width and then cloned (layout history).",
    "Texts containing CR are exempt from 'exactly once'; widths above 6 and longer sequences are not explored.",
    "DESIGN.md §C09")
CHECKS["C10"] = ("sweep", "exploration",
    "exhaustive enumeration of view trees from explicit sub-grammars x 100 constraints x glyph settings, with probe leaves and a JSON twin",
    "All trees of up to 4 (5) nodes over a small grammar, all trees of up to 2 nodes over the full parameter lattices (21 leaves incl. text, fills, images, glyph, scroll bars with visible in {0,0.5,1,NaN} in the plain and the callback form (the latter also with the position from_counts gives for an empty list), two probe leaves; 768 containers = sizes x alignments x margins incl. usize::MAX and "
    "offset(i32::MIN); Frame, Tag, Dynamic, Option, Either, trace_layout, JSON `ref` resolved through a ViewCache (cached views wrapped in a recursion guard); 12x56 flex variants with factors incl. NaN, negative, 1e308 and zero children), all containers over composite children and single flexes with 2-3 children: 283 836 (8.05 M) trees x 100 constraints (all min <= max over heights {0,1,2,5} x widths {0,1,3,7}) x glyph support. "
    "Oracle: no panic and no Err; rendering into a sentinel-bordered sub-view leaves the border intact; every bounded view at every depth reports min <= size <= max; probe leaves paint exactly the rectangle obtained by summing positions down the layout tree clipped by every ancestor, "
    "and find_path from every painted cell ends at that probe's node; every tree with a JSON form is rebuilt through ViewDeserializer and must lay out identically.",
    "Justification / alignment placement semantics are not judged (statement silent); Offscreen is not in the grammar; trees above 5 nodes are not explored.",
    "DESIGN.md §C10")
CHECKS["C13"] = ("sweep", "exploration",
    "exhaustive small-image and small-palette sweeps against brute-force nearest-colour search",
    "All images of up to 4 (6) pixels over a 12-colour alphabet in every arrangement (crops of a poisoned border included), all multiset images with each colour 0..=2 times (so that the octree pruning loop is reached: it needs >= 9 distinct colours), subsampled periodic images, flat 1 x n images around the counts where a channel sum leaves the exact range of f32 (n = 65 788..65 812, 132 107, 197 381), all images of up to 4 pixels over three RGB values (black among them) x five alpha values, transposed images, images of 65 535 .. 67 584 distinct colours with 70 000 requested, "
    "x requested sizes {1..10, 256} x dithering on/off x 2 (3) backgrounds (the alpha ladder over 5, two of them fully transparent; one- and two-pixel images once more with logging switched on): 15.8 M (414 M) quantisations; all palettes of 1-3 colours over a 4^3 lattice, of 4 colours over a 3^3 lattice and of 5 colours over the 8 cube corners (ordered, 831 k palettes) x 125 queries and 5 (8) structured palettes of 2..512 colours (xterm-256, clustered, all-equal, duplicates) (both public lookups, find and find_naive, at and around every entry) x ALL 2^24 queries against brute force. "
    "Oracle: Some for non-empty images, 1 <= |palette| <= max(requested, 8), indices valid, without dithering each pixel maps to an entry at minimal squared RGB distance from the composited pixel, find is minimal for every query, exact reproduction when the distinct colours fit and the image is not subsampled; a watchdog turns a stuck pruning loop into a violation.",
    "Compositing of transparent pixels uses the rasterize crate's blend_over (assumed); which of several tied entries wins is not judged; palettes smaller than necessary are allowed by the statement (measured and reported as a lead).",
    "DESIGN.md §C13")
CHECKS["C19"] = ("sweep (worker subprocesses)", "exploration",
    "complete round-trip lattices + deviation-bounded enumeration of JSON mutations in resource-limited worker subprocesses",
    "Round trips: 2.74 M faces (thorough: the full 48.2 M product of colours incl. alpha x attribute sets) through Display/FromStr and serde, every writable key x 256 modifier sets, chords up to length 3, sizes over {0,1,2,65535,usize::MAX}^2, all crops of images up to 3x3 and 1x1000, all ordered pairs of windows of one image object serialised back to back, hand-built 1/3/4-channel inputs. "
    "Hostile documents: 12 valid seed documents (Image, Glyph, Text, view trees using every view type) with EVERY single mutation (5 615) in quick and EVERY pair of mutations (2.6 M) in thorough from a 20-value replacement alphabet (null, numbers up to 2^64-1 and 1e308, empty / deep arrays, an ill-typed leaf under 12 and 120 nested arrays, a repeated size key with another value, padding inside the base64 text, image documents in every key order, wrapped sizes, broken base64, every view type name, 100- and 1000-deep nests) plus key deletion, duplication and swaps, "
    "each through the JSON text route and the Value route, in worker subprocesses with an 8 MiB stack, a 3 GiB address-space limit and an 8 s stall timeout. Oracle: deserialisation returns (no panic, abort, stack overflow, stall); every view tree that deserialises is laid out under 6 constraints (and under two constraints in five contexts built from terminals that report no, partial or tiny pixel sizes) and rendered into a sentinel-bordered canvas without panicking; accepted and rejected counts must both be non-zero per deserialiser.",
    "Documents larger than the seeds and mutation sets larger than pairs are not enumerated; serde_json's own recursion limit is trusted.",
    "DESIGN.md §C19")

PENDING = {}
ALL = ["C%02d" % i for i in range(1, 21)]

def main():
    hooks_commits = []
    try:
        out = subprocess.run(["git", "-C", "/repo", "log", "--format=%h %s"], capture_output=True, text=True).stdout
        hooks_commits = [l.split()[0] for l in out.splitlines() if "verif-hooks" in l]
    except Exception:
        pass
    checks = []
    for pid in ALL:
        if pid not in CHECKS:
            continue
        engine, level, technique, text, note, ref = CHECKS[pid]
        checks.append({
            "property_id": pid,
            "quick_cmd": f"./check {pid} quick",
            "thorough_cmd": f"./check {pid} thorough",
            "evidence_file": f"/verif/evidence/{pid}.json",
            "replay_cmd_template": f"./check {pid} --replay {{path}}",
            "engine": engine,
            "level_claimed": {"category": level, "text": text, "design_ref": ref},
            "level_note": note,
            "technique": technique,
        })
    na = [{"property_id": p, "reason": PENDING.get(p, "check not built yet in this session (see DESIGN.md §8 work order); no claim is made")}
          for p in ALL if p not in CHECKS]
    manifest = {
        "version": 1,
        "setup_cmd": "cd /verif/harness && CARGO_NET_OFFLINE=true cargo build --release --offline",
        "hooks": {
            "guard": "cargo feature verif-hooks",
            "enable": "the harness crate depends on surf_n_term = { path = \"/repo\", features = [\"verif-hooks\"] }; every check runs cargo build --release --offline in /verif/harness first",
            "baseline_off_cmd": "cd /repo && cargo test --workspace --no-fail-fast --offline",
            "source_commits": hooks_commits,
            "add_only": True,
        },
        "engines": [
            {"name": "bfs", "path": "harness/src/engine/bfs.rs", "serves_properties": ["C01", "C03", "C06", "C07", "C11", "C14", "C15", "C16", "C18"],
             "kind_free_text": "level-synchronous explicit-state BFS over operation histories of the real objects (rebuilt by replay), 128-bit canonical keys, deterministic parallel expansion"},
            {"name": "devdfs", "path": "harness/src/engine/devdfs.rs", "serves_properties": ["C16", "C17"],
             "kind_free_text": "deviation-bounded stateless exploration of environment answers (iterative context bounding generalised to kernel answers), divergence = machinery error"},
            {"name": "sweep", "path": "harness/src/prop", "serves_properties": ["C02", "C04", "C05", "C08", "C09", "C10", "C12", "C13", "C19", "C20"],
             "kind_free_text": "complete enumeration of finite input lattices / cartesian products"},
            {"name": "workers", "path": "harness/src/engine/workers.rs", "serves_properties": ["C02", "C13", "C19", "C16", "C17"],
             "kind_free_text": "subprocess sharding with a memory-mapped progress record so aborts/hangs are attributed to the exact input and confirmed in a fresh process"},
        ],
        "checks": checks,
        "not_applicable": na,
        "notes": "Exit codes: 0 held, 1 VIOLATION line(s), 2 machinery failure. known_findings.json is committed and never written at run time.",
    }
    with open(os.path.join(HERE, "MANIFEST.json"), "w") as f:
        json.dump(manifest, f, indent=1)
        f.write("\n")
    # validate
    try:
        import jsonschema
        schema = json.load(open("/root/.vp/MANIFEST.schema.json"))
        jsonschema.validate(manifest, schema)
        print("MANIFEST.json valid;", len(checks), "checks,", len(na), "not_applicable")
    except ImportError:
        print("jsonschema not available; wrote MANIFEST.json")

if __name__ == "__main__":
    main()
